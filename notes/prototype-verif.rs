//! Verification hooks (compiled only with `--cfg ukoehb_bevy_cobweb_verif`).
use std::cell::Cell;

thread_local! { static YIELD: Cell<Option<fn()>> = const { Cell::new(None) }; }

pub fn set_yield_hook(f: Option<fn()>) { YIELD.with(|y| y.set(f)); }
pub fn yield_point() { if let Some(f) = YIELD.with(|y| y.get()) { f() } }

pub mod sync
{
    use super::yield_point;
    pub struct Arc<T>(std::sync::Arc<T>);
    impl<T> Arc<T>
    {
        pub fn new(t: T) -> Self { Self(std::sync::Arc::new(t)) }
        pub fn strong_count(this: &Self) -> usize { yield_point(); let c = std::sync::Arc::strong_count(&this.0); yield_point(); c }
    }
    impl<T> Clone for Arc<T> { fn clone(&self) -> Self { yield_point(); Self(self.0.clone()) } }
    impl<T> Drop for Arc<T> { fn drop(&mut self) { yield_point(); } }
    impl<T> std::ops::Deref for Arc<T> { type Target = T; fn deref(&self) -> &T { &self.0 } }
}
