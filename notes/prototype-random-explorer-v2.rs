#![allow(dead_code, unused)]
use bevy::prelude::*;
use bevy::ecs::system::SystemParam;
use bevy_cobweb::prelude::*;
use std::cell::RefCell;

thread_local! { static LOG: RefCell<Vec<String>> = RefCell::new(Vec::new()); static FULL: RefCell<Vec<String>> = RefCell::new(Vec::new()); }
fn log(s: impl Into<String>) { let s: String = s.into(); FULL.with(|l| l.borrow_mut().push(s.clone())); LOG.with(|l| l.borrow_mut().push(s)); }
fn take_log() -> Vec<String> { LOG.with(|l| std::mem::take(&mut *l.borrow_mut())) }

#[derive(ReactComponent, PartialEq)] struct A(u8);
#[derive(ReactComponent, PartialEq)] struct B(u8);
#[derive(ReactResource, PartialEq, Default)] struct R(u8);
struct X(u32); impl Drop for X { fn drop(&mut self) { log(format!("dropX{}", self.0)); } }
struct Y(u32); impl Drop for Y { fn drop(&mut self) { log(format!("dropY{}", self.0)); } }

#[derive(SystemParam)]
struct Readers<'w, 's> {
    bx: BroadcastEvent<'w, 's, X>, by: BroadcastEvent<'w, 's, Y>,
    ex: EntityEvent<'w, 's, X>, ey: EntityEvent<'w, 's, Y>,
    sx: SystemEvent<'w, 's, X>, sy: SystemEvent<'w, 's, Y>,
    ia: InsertionEvent<'w, 's, A>, ib: InsertionEvent<'w, 's, B>,
    ma: MutationEvent<'w, 's, A>, mb: MutationEvent<'w, 's, B>,
    ra: RemovalEvent<'w, 's, A>, rb: RemovalEvent<'w, 's, B>,
    d: DespawnEvent<'w>,
}
impl<'w, 's> Readers<'w, 's> {
    fn sample(&mut self) -> String {
        let mut v = vec![];
        if let Ok(x) = self.bx.try_read() { v.push(format!("bx{}", x.0)); }
        if let Ok(x) = self.by.try_read() { v.push(format!("by{}", x.0)); }
        if let Ok((e, x)) = self.ex.try_read() { v.push(format!("ex{}@{}", x.0, e.index())); }
        if let Ok((e, x)) = self.ey.try_read() { v.push(format!("ey{}@{}", x.0, e.index())); }
        if let Ok(x) = self.sx.take() { v.push(format!("sx{}", x.0)); }
        if let Ok(x) = self.sy.take() { v.push(format!("sy{}", x.0)); }
        if let Ok(e) = self.ia.get() { v.push(format!("ia@{}", e.index())); }
        if let Ok(e) = self.ib.get() { v.push(format!("ib@{}", e.index())); }
        if let Ok(e) = self.ma.get() { v.push(format!("ma@{}", e.index())); }
        if let Ok(e) = self.mb.get() { v.push(format!("mb@{}", e.index())); }
        if let Ok(e) = self.ra.get() { v.push(format!("ra@{}", e.index())); }
        if let Ok(e) = self.rb.get() { v.push(format!("rb@{}", e.index())); }
        if let Ok(e) = self.d.get() { v.push(format!("d@{}", e.index())); }
        if v.is_empty() { "-".into() } else { v.join("+") }
    }
}



use std::collections::{HashMap, HashSet};
use std::panic::{catch_unwind, AssertUnwindSafe};

thread_local! { static VIOL: RefCell<Vec<String>> = RefCell::new(Vec::new()); }
fn viol(s: String) { VIOL.with(|v| v.borrow_mut().push(s)); }

struct Rng(u64);
impl Rng { fn next(&mut self) -> u64 { self.0 = self.0.wrapping_add(0x9E3779B97F4A7C15); let mut z = self.0; z = (z ^ (z >> 30)).wrapping_mul(0xBF58476D1CE4E5B9); z = (z ^ (z >> 27)).wrapping_mul(0x94D049BB133111EB); z ^ (z >> 31) }
  fn below(&mut self, n: u64) -> u64 { self.next() % n } fn chance(&mut self, p: u64) -> bool { self.below(100) < p } }

struct Ewr;
impl EntityWorldReactor for Ewr {
    type Triggers = (EntityMutationTrigger<A>, EntityEventTrigger<X>);
    type Local = u32;
    fn reactor(self) -> SystemCommandCallback {
        SystemCommandCallback::new(|mut l: EntityLocal<Ewr>, mut r: Readers, mut p: ResMut<Prog>, ents: &bevy::ecs::entity::Entities| {
            let s = r.sample();
            let src = l.entity();
            if !ents.contains(src) { log(format!("EWR[{s}] dead source {}", src.index())); return; }
            let got = catch_unwind(AssertUnwindSafe(|| { let (e, v) = l.get_mut(); (e, *v) }));
            let Ok(_) = got else { log(format!("EWR[{s}] nodata {}", src.index())); if p.mem_mut.contains(&src) || p.mem_ev.contains(&src) { viol(format!("EWR no data for member {src:?}")); } return; };
            let (e, v) = l.get_mut();
            log(format!("EWR[{s}] local@{}={}", e.index(), *v));
            if s.contains('+') { viol(format!("EWR saw two events {s}")); }
            let want = p.shadow.get(&e).copied();
            if want != Some(*v) { viol(format!("EWR local {} != shadow {:?} for {:?} [{s}]", *v, want, e)); }


            if s == "-" { viol("EWR ran with no event".into()); }
            *v += 100; *p.shadow.get_mut(&e).unwrap() += 100;
        })
    }
}

#[derive(Clone, Debug)]
enum Op { Run(usize), Sys(usize, bool), Bcast(bool), EEv(usize, bool), Mutate(usize), Insert(usize), Remove(usize), DespawnEnt(usize), TrigRes, Kill(usize), Revoke(usize), Probe, DirectDespawn(usize), DirectRemove(usize),
    Once(u8), EwrAdd(usize, u32), EwrRemove(usize, bool), RevokeOnce(usize) }

#[derive(Resource, Default)] struct Prog { scripts: Vec<Vec<Vec<Op>>>, err_at: Vec<Vec<Option<usize>>>, sys: Vec<SystemCommand>, ents: Vec<Entity>, toks: Vec<Option<RevokeToken>>, next_id: u32, sent: Vec<u32>,
    once_runs: HashMap<u32, u32>, once_toks: Vec<RevokeToken>, next_once: u32, shadow: HashMap<Entity, u32>, mem_mut: HashSet<Entity>, mem_ev: HashSet<Entity> }

fn once_body(id: u32, selftrigger: bool) -> impl FnMut(Readers, Commands, ResMut<Prog>) + Send + Sync + 'static {
    move |mut r: Readers, mut c: Commands, mut p: ResMut<Prog>| {
        let s = r.sample();
        log(format!("ONCE{id}[{s}]"));
        if s.contains('+') { viol(format!("ONCE saw two events {s}")); }
        let n = p.once_runs.entry(id).or_default(); *n += 1;
        if *n > 1 { viol(format!("once {id} ran {} times", *n)); }
        if selftrigger { p.next_id += 1; let pid = p.next_id; p.sent.push(pid); c.react().broadcast(X(pid)); c.react().trigger_resource_mutation::<R>(); }
    }
}

fn exec_ops(ops: &[Op], upto: usize, c: &mut Commands, p: &mut Prog) {
    for op in ops.iter().take(upto) { match op.clone() {
        Op::Run(t) => { c.queue(p.sys[t]); }
        Op::Sys(t, y) => { p.next_id += 1; let id = p.next_id; p.sent.push(id); if y { c.send_system_event(p.sys[t], Y(id)); } else { c.send_system_event(p.sys[t], X(id)); } }
        Op::Bcast(y) => { p.next_id += 1; let id = p.next_id; p.sent.push(id); if y { c.react().broadcast(Y(id)); } else { c.react().broadcast(X(id)); } }
        Op::EEv(s, y) => { p.next_id += 1; let id = p.next_id; p.sent.push(id); let e = p.ents[s]; if y { c.react().entity_event(e, Y(id)); } else { c.react().entity_event(e, X(id)); } }
        Op::Mutate(s) => { let e = p.ents[s]; c.queue(move |w: &mut World| { React::<A>::trigger_mutation(e, w); }); }
        Op::Insert(s) => { let e = p.ents[s]; c.react().insert(e, A(1)); }
        Op::Remove(s) => { let e = p.ents[s]; if let Some(mut ec) = c.get_entity(e) { ec.remove::<React<A>>(); } }
        Op::DespawnEnt(s) => { let e = p.ents[s]; if let Some(mut ec) = c.get_entity(e) { ec.despawn(); } }
        Op::DirectDespawn(s) => { let e = p.ents[s]; c.queue(move |w: &mut World| { w.despawn(e); }); }
        Op::DirectRemove(s) => { let e = p.ents[s]; c.queue(move |w: &mut World| { if let Ok(mut em) = w.get_entity_mut(e) { em.remove::<React<A>>(); } }); }
        Op::TrigRes => { c.react().trigger_resource_mutation::<R>(); }
        Op::Kill(t) => { let e = *p.sys[t]; c.queue(move |w: &mut World| { w.despawn(e); }); }
        Op::Revoke(v) => { if let Some(tok) = p.toks[v].clone() { c.react().revoke(tok); } }
        Op::Probe => { c.syscall((), |mut r: Readers| { let s = r.sample(); if s != "-" { viol(format!("probe saw {s}")); } }); }
        Op::Once(k) => {
            p.next_once += 1; let id = p.next_once; let e0 = p.ents[0]; let e1 = p.ents[1];
            let tok = match k % 5 {
                0 => c.react().once(broadcast::<X>(), once_body(id, true)),
                1 => c.react().once((broadcast::<Y>(), resource_mutation::<R>(), entity_mutation::<A>(e0)), once_body(id, false)),
                2 => c.react().once((entity_event::<X>(e1), mutation::<A>(), despawn(e0), removal::<A>()), once_body(id, true)),
                3 => c.react().once((), once_body(id, false)),
                _ => c.react().once((despawn(e1), insertion::<A>(), any_entity_event::<Y>()), once_body(id, false)),
            };
            p.once_toks.push(tok);
        }
        Op::RevokeOnce(i) => { if !p.once_toks.is_empty() { let t = p.once_toks[i % p.once_toks.len()].clone(); c.react().revoke(t); } }
        Op::EwrAdd(s, v) => { let e = p.ents[s]; c.queue(move |w: &mut World| {
            if w.get_entity(e).is_err() { return; }
            { let p = w.resource::<Prog>(); if p.mem_mut.contains(&e) || p.mem_ev.contains(&e) { return; } }
            w.syscall((e, v), |In((e, v)): In<(Entity, u32)>, mut c: Commands, r: EntityReactor<Ewr>| { r.add(&mut c, e, v); });
            log(format!("ewr-add {} {v}", e.index()));
            let mut p = w.resource_mut::<Prog>(); p.shadow.insert(e, v); p.mem_mut.insert(e); p.mem_ev.insert(e);
        }); }
        Op::EwrRemove(s, full) => { let e = p.ents[s]; c.queue(move |w: &mut World| {
            w.syscall((e, full), |In((e, full)): In<(Entity, bool)>, mut c: Commands, r: EntityReactor<Ewr>| {
                if full { r.remove(&mut c, (entity_mutation::<A>(e), entity_event::<X>(e))); } else { r.remove(&mut c, entity_mutation::<A>(e)); }
            });
            log(format!("ewr-remove {} full={full}", e.index()));
            let mut p = w.resource_mut::<Prog>(); p.mem_mut.remove(&e); if full { p.mem_ev.remove(&e); }
            if !p.mem_mut.contains(&e) && !p.mem_ev.contains(&e) { p.shadow.remove(&e); }
        }); }
    } }
}

fn body(idx: usize) -> impl FnMut(Readers, Commands, ResMut<Prog>, Local<u32>) -> DropErr + Send + Sync + 'static {
    let mut captured = 0u32;
    move |mut r: Readers, mut c: Commands, mut p: ResMut<Prog>, mut n: Local<u32>| {
        *n += 1; captured += 1;
        if *n != captured { viol(format!("local {} != captured {}", *n, captured)); }
        let s = r.sample();
        if s.contains('+') { viol(format!("T{idx}#{} saw two events: {s}", *n)); }
        log(format!("T{idx}#{}[{s}]", *n));
        let k = (*n as usize - 1).min(p.scripts[idx].len() - 1);
        let ops = p.scripts[idx][k].clone();
        let err = p.err_at[idx].get(k).copied().flatten();
        exec_ops(&ops, err.unwrap_or(usize::MAX), &mut c, &mut p);
        if err.is_some() { return Err(IgnoredError); }
        DONE
    }
}

fn excl_body(idx: usize) -> impl FnMut(&mut World) + Send + Sync + 'static {
    let mut captured = 0u32;
    move |w: &mut World| {
        captured += 1;
        log(format!("T{idx}#{captured}[excl]"));
        w.resource_scope(|w: &mut World, mut p: Mut<Prog>| {
            let k = (captured as usize - 1).min(p.scripts[idx].len() - 1);
            let ops = p.scripts[idx][k].clone();
            let mut c = w.commands();
            c.syscall((), |mut r: Readers| { let s = r.sample(); if s != "-" { viol(format!("probe queued by exclusive saw {s}")); } });
            exec_ops(&ops, usize::MAX, &mut c, &mut p);
        });
    }
}

fn gen_ops(rng: &mut Rng, nsys: usize, max: u64) -> Vec<Op> {
    let n = rng.below(max + 1);
    (0..n).map(|_| match rng.below(26) {
        0 | 1 | 2 => Op::Run(rng.below(nsys as u64) as usize),
        3 | 4 | 5 => Op::Sys(rng.below(nsys as u64) as usize, rng.chance(50)),
        6 | 7 => Op::Bcast(rng.chance(50)),
        8 | 9 => Op::EEv(rng.below(2) as usize, rng.chance(50)),
        10 | 11 => Op::Mutate(rng.below(2) as usize),
        12 => Op::Insert(rng.below(2) as usize),
        13 => Op::Remove(rng.below(2) as usize),
        14 => if rng.chance(50) { Op::DespawnEnt(rng.below(2) as usize) } else { Op::DirectDespawn(rng.below(2) as usize) },
        15 => Op::TrigRes,
        16 => Op::Kill(rng.below(nsys as u64) as usize),
        17 => Op::Revoke(rng.below(nsys as u64) as usize),
        18 => Op::DirectRemove(rng.below(2) as usize),
        19 | 20 => Op::Once(rng.below(5) as u8),
        21 | 22 => Op::EwrAdd(rng.below(2) as usize, 1 + rng.below(5) as u32),
        23 => Op::EwrRemove(rng.below(2) as usize, rng.chance(50)),
        24 => Op::RevokeOnce(rng.below(4) as usize),
        _ => Op::Probe,
    }).collect()
}

fn run_one(seed: u64, verbose: bool) -> Vec<String> {
    let mut rng = Rng(seed);
    take_log(); FULL.with(|l| l.borrow_mut().clear()); VIOL.with(|v| v.borrow_mut().clear());
    let mut app = App::new(); app.add_plugins(ReactPlugin).init_resource::<Prog>().add_entity_reactor(Ewr); app.world_mut().insert_react_resource(R(0));
    let w = app.world_mut();
    let base = w.entities().len() as usize; // EWR system entity
    let nsys = 2 + rng.below(3) as usize;
    let e0 = w.spawn_empty().id(); let e1 = w.spawn_empty().id();
    w.react(|rc| { rc.insert(e0, A(0)); rc.insert(e1, A(0)); });
    let mut scripts = vec![]; let mut err_at = vec![];
    for _ in 0..nsys { let runs = 1 + rng.below(3); let mut v: Vec<Vec<Op>> = (0..runs).map(|_| gen_ops(&mut rng, nsys, 4)).collect(); v.push(vec![]);
        let e: Vec<Option<usize>> = v.iter().map(|ops| if rng.chance(20) { Some(rng.below(ops.len() as u64 + 1) as usize) } else { None }).collect();
        scripts.push(v); err_at.push(e); }
    { let mut p = w.resource_mut::<Prog>(); p.scripts = scripts; p.err_at = err_at; p.ents = vec![e0, e1]; p.toks = vec![None; nsys]; }
    let mut persistent = vec![]; let mut exclusive = vec![];
    for i in 0..nsys {
        let mode = match rng.below(3) { 0 => ReactorMode::Persistent, 1 => ReactorMode::Cleanup, _ => ReactorMode::Revokable };
        let excl = rng.chance(25);
        let sc = if excl { w.spawn_system_command(excl_body(i)) } else { w.spawn_system_command(body(i)) };
        w.resource_mut::<Prog>().sys.push(sc);
        persistent.push(mode == ReactorMode::Persistent); exclusive.push(excl);
        let mask = rng.next();
        let tok = w.react(|rc| {
            macro_rules! reg { ($($t:expr),*) => { rc.with(($($t,)*), sc, mode) } }
            match mask % 6 {
                0 => reg!(broadcast::<X>(), entity_event::<X>(e0), entity_mutation::<A>(e1), resource_mutation::<R>()),
                1 => reg!(broadcast::<Y>(), broadcast::<X>(), mutation::<A>(), despawn(e0), removal::<A>()),
                2 => reg!(any_entity_event::<X>(), entity_event::<Y>(e1), insertion::<A>(), entity_removal::<A>(e0), despawn(e1)),
                3 => reg!(entity_event::<X>(e0), entity_event::<X>(e1), entity_mutation::<A>(e0), entity_mutation::<A>(e1), broadcast::<X>()),
                4 => reg!(despawn(e0), despawn(e1)),
                _ => reg!(broadcast::<X>(), broadcast::<Y>(), any_entity_event::<Y>(), entity_insertion::<A>(e0), removal::<A>(), mutation::<A>()),
            }
        });
        w.resource_mut::<Prog>().toks[i] = tok;
    }
    let mut killed_possible = w.resource::<Prog>().scripts.iter().flatten().flatten().any(|o| matches!(o, Op::Kill(_)));
    let steps = 1 + rng.below(4);
    for step in 0..steps {
        let ops = gen_ops(&mut rng, nsys, 3);
        if ops.iter().any(|o| matches!(o, Op::Kill(_))) { killed_possible = true; }
        if verbose { log(format!("-- step {step} {:?}", ops)); if step == 0 { let p = w.resource::<Prog>(); for (i, sc) in p.scripts.iter().enumerate() { log(format!("script T{i} excl={} err={:?}: {:?}", exclusive[i], p.err_at[i], sc)); } } }
        let r = catch_unwind(AssertUnwindSafe(|| {
            w.resource_scope(|w: &mut World, mut p: Mut<Prog>| { let mut c = w.commands(); exec_ops(&ops, usize::MAX, &mut c, &mut p); });
            w.flush();
            if rng.chance(50) { garbage_collect_entities(w); schedule_removal_and_despawn_reactors(w); }
        }));
        if r.is_err() { viol(format!("panic in step {step}")); return VIOL.with(|v| v.borrow().clone()); }
    }
    garbage_collect_entities(w); schedule_removal_and_despawn_reactors(w); garbage_collect_entities(w);
    let log_now = FULL.with(|l| l.borrow().clone());
    let mut counts: HashMap<u32, u32> = HashMap::new();
    for l in &log_now { if let Some(rest) = l.strip_prefix("dropX").or_else(|| l.strip_prefix("dropY")) { *counts.entry(rest.parse().unwrap()).or_default() += 1; } }
    let sent = w.resource::<Prog>().sent.clone();
    for id in sent { let c = counts.get(&id).copied().unwrap_or(0); if c != 1 { viol(format!("payload {id} dropped {c} times")); } }
    let syss = w.resource::<Prog>().sys.clone();
    { let mut p = w.resource_mut::<Prog>(); for s in p.scripts.iter_mut() { *s = vec![vec![]]; } for e in p.err_at.iter_mut() { *e = vec![None]; } }
    for (i, sc) in syss.iter().enumerate() {
        if w.get_entity(**sc).is_err() || exclusive[i] { continue; }
        { let mut p = w.resource_mut::<Prog>(); for s in p.scripts.iter_mut() { *s = vec![vec![]]; } for e in p.err_at.iter_mut() { *e = vec![None]; } }
        take_log();
        let r = catch_unwind(AssertUnwindSafe(|| w.send_system_event(*sc, X(900000 + i as u32))));
        if r.is_err() { viol(format!("panic in sweep {i}")); break; }
        let l = take_log();
        let want = format!("[sx{}]", 900000 + i as u32);
        if !l.iter().any(|x| x.starts_with(&format!("T{i}#")) && x.ends_with(&want)) { viol(format!("sweep T{i} got {:?}", l)); }
    }
    // EWR data presence is crate-private: black-box check = members still react with the right local (one mutation each)
    {
        let members: Vec<Entity> = w.resource::<Prog>().mem_mut.iter().copied().filter(|e| w.get_entity(*e).is_ok()).collect();
        for e in members { if w.get::<React<A>>(e).is_none() { continue; } take_log(); React::<A>::trigger_mutation(e, w); let l = take_log(); if !l.iter().any(|x| x.starts_with("EWR[ma@")) { viol(format!("EWR member {e:?} did not react: {l:?}")); } }
    }
    {
        let toks = w.resource::<Prog>().toks.clone(); let otoks = w.resource::<Prog>().once_toks.clone();
        let r = catch_unwind(AssertUnwindSafe(|| {
            w.react(|rc| { for t in toks.iter().flatten() { rc.revoke(t.clone()); rc.revoke(t.clone()); } for t in otoks.iter() { rc.revoke(t.clone()); } });
            w.despawn(e0); w.despawn(e1);
            garbage_collect_entities(w); schedule_removal_and_despawn_reactors(w); garbage_collect_entities(w);
        }));
        if r.is_err() { viol("panic in teardown".into()); }
        for (i, sc) in syss.iter().enumerate() {
            let alive = w.get_entity(**sc).is_ok();
            if toks[i].is_some() && alive { viol(format!("revokable T{i} alive after revoke+gc")); }
            if persistent[i] && !alive && !killed_possible { viol(format!("persistent T{i} dead")); }
        }
        for t in otoks.iter() { if w.get_entity(*SystemCommand::from(t.clone())).is_ok() { viol("once reactor entity alive after revoke+gc".into()); } }
    }
    let alive_sys = syss.iter().filter(|s| w.get_entity(***s).is_ok()).count();
    let total = w.entities().len() as usize;
    if total != base + alive_sys && verbose {
        let ents: Vec<Entity> = w.iter_entities().map(|e| e.id()).collect();
        for e in ents { let names: Vec<String> = w.inspect_entity(e).map(|c| c.name().to_string()).collect(); log(format!("LEFT {e:?}: {names:?}")); }
    }
    if total != base + alive_sys { viol(format!("entity count {total} != base {base} + sys {alive_sys}")); }
    VIOL.with(|v| v.borrow().clone())
}

fn main() {
    let args: Vec<String> = std::env::args().collect();
    if args.len() > 1 && args[1] != "n" { let seed: u64 = args[1].parse().unwrap(); let v = run_one(seed, true); println!("{:#?}\n{:?}", FULL.with(|l| l.borrow().clone()), v); return; }
    if std::env::var("QUIET").is_ok() { std::panic::set_hook(Box::new(|_| {})); }
    let n: u64 = if args.len() > 2 { args[2].parse().unwrap() } else { 100000 }; let mut bad = 0; let mut kinds: HashMap<String, (u64, u64)> = HashMap::new();
    for seed in 1..=n { let v = catch_unwind(|| run_one(seed, false)).unwrap_or_else(|_| vec![format!("uncaught panic")]); if !v.is_empty() { bad += 1; let k: String = v[0].chars().filter(|c| !c.is_ascii_digit()).take(40).collect(); let e = kinds.entry(k).or_insert((0, seed)); e.0 += 1; } }
    println!("runs={n} bad={bad}"); let mut ks: Vec<_> = kinds.into_iter().collect(); ks.sort_by_key(|x| std::cmp::Reverse(x.1.0)); for (k, (c, s)) in ks { println!("  {c:6} first-seed={s} {k}"); }
}
