#![allow(dead_code, unused)]
use bevy::prelude::*;
use bevy::ecs::system::SystemParam;
use bevy_cobweb::prelude::*;
use std::cell::RefCell;

thread_local! { static LOG: RefCell<Vec<String>> = RefCell::new(Vec::new()); static FULL: RefCell<Vec<String>> = RefCell::new(Vec::new()); }
fn log(s: impl Into<String>) { let s: String = s.into(); FULL.with(|l| l.borrow_mut().push(s.clone())); LOG.with(|l| l.borrow_mut().push(s)); }
fn take_log() -> Vec<String> { LOG.with(|l| std::mem::take(&mut *l.borrow_mut())) }

#[derive(ReactComponent, PartialEq)] struct A(u8);
#[derive(ReactComponent, PartialEq)] struct B(u8);
#[derive(ReactResource, PartialEq, Default)] struct R(u8);
struct X(u32); impl Drop for X { fn drop(&mut self) { log(format!("dropX{}", self.0)); } }
struct Y(u32); impl Drop for Y { fn drop(&mut self) { log(format!("dropY{}", self.0)); } }

#[derive(SystemParam)]
struct Readers<'w, 's> {
    bx: BroadcastEvent<'w, 's, X>, by: BroadcastEvent<'w, 's, Y>,
    ex: EntityEvent<'w, 's, X>, ey: EntityEvent<'w, 's, Y>,
    sx: SystemEvent<'w, 's, X>, sy: SystemEvent<'w, 's, Y>,
    ia: InsertionEvent<'w, 's, A>, ib: InsertionEvent<'w, 's, B>,
    ma: MutationEvent<'w, 's, A>, mb: MutationEvent<'w, 's, B>,
    ra: RemovalEvent<'w, 's, A>, rb: RemovalEvent<'w, 's, B>,
    d: DespawnEvent<'w>,
}
impl<'w, 's> Readers<'w, 's> {
    fn sample(&mut self) -> String {
        let mut v = vec![];
        if let Ok(x) = self.bx.try_read() { v.push(format!("bx{}", x.0)); }
        if let Ok(x) = self.by.try_read() { v.push(format!("by{}", x.0)); }
        if let Ok((e, x)) = self.ex.try_read() { v.push(format!("ex{}@{}", x.0, e.index())); }
        if let Ok((e, x)) = self.ey.try_read() { v.push(format!("ey{}@{}", x.0, e.index())); }
        if let Ok(x) = self.sx.take() { v.push(format!("sx{}", x.0)); }
        if let Ok(x) = self.sy.take() { v.push(format!("sy{}", x.0)); }
        if let Ok(e) = self.ia.get() { v.push(format!("ia@{}", e.index())); }
        if let Ok(e) = self.ib.get() { v.push(format!("ib@{}", e.index())); }
        if let Ok(e) = self.ma.get() { v.push(format!("ma@{}", e.index())); }
        if let Ok(e) = self.mb.get() { v.push(format!("mb@{}", e.index())); }
        if let Ok(e) = self.ra.get() { v.push(format!("ra@{}", e.index())); }
        if let Ok(e) = self.rb.get() { v.push(format!("rb@{}", e.index())); }
        if let Ok(e) = self.d.get() { v.push(format!("d@{}", e.index())); }
        if v.is_empty() { "-".into() } else { v.join("+") }
    }
}


use std::collections::HashMap;
use std::panic::{catch_unwind, AssertUnwindSafe};

thread_local! { static DROPS: RefCell<HashMap<u32, u32>> = RefCell::new(HashMap::new()); static VIOL: RefCell<Vec<String>> = RefCell::new(Vec::new()); }
fn viol(s: String) { VIOL.with(|v| v.borrow_mut().push(s)); }

struct Rng(u64);
impl Rng { fn next(&mut self) -> u64 { self.0 = self.0.wrapping_add(0x9E3779B97F4A7C15); let mut z = self.0; z = (z ^ (z >> 30)).wrapping_mul(0xBF58476D1CE4E5B9); z = (z ^ (z >> 27)).wrapping_mul(0x94D049BB133111EB); z ^ (z >> 31) }
  fn below(&mut self, n: u64) -> u64 { self.next() % n } fn chance(&mut self, p: u64) -> bool { self.below(100) < p } }

#[derive(Clone, Debug)]
enum Op { Run(usize), Sys(usize, bool), Bcast(bool), EEv(usize, bool), Mutate(usize), Insert(usize), Remove(usize), DespawnEnt(usize), TrigRes, Kill(usize), Revoke(usize), Probe, DirectDespawn(usize), DirectRemove(usize) }

#[derive(Resource, Default)] struct Prog { scripts: Vec<Vec<Vec<Op>>>, sys: Vec<SystemCommand>, ents: Vec<Entity>, toks: Vec<Option<RevokeToken>>, next_id: u32, sent: Vec<u32>, excl: Vec<bool> }

fn exec_ops(ops: &[Op], c: &mut Commands, p: &mut Prog) {
    for op in ops { match op.clone() {
        Op::Run(t) => { c.queue(p.sys[t]); }
        Op::Sys(t, y) => { p.next_id += 1; let id = p.next_id; p.sent.push(id); if y { c.send_system_event(p.sys[t], Y(id)); } else { c.send_system_event(p.sys[t], X(id)); } }
        Op::Bcast(y) => { p.next_id += 1; let id = p.next_id; p.sent.push(id); if y { c.react().broadcast(Y(id)); } else { c.react().broadcast(X(id)); } }
        Op::EEv(s, y) => { p.next_id += 1; let id = p.next_id; p.sent.push(id); let e = p.ents[s]; if y { c.react().entity_event(e, Y(id)); } else { c.react().entity_event(e, X(id)); } }
        Op::Mutate(s) => { let e = p.ents[s]; c.queue(move |w: &mut World| { React::<A>::trigger_mutation(e, w); }); }
        Op::Insert(s) => { let e = p.ents[s]; c.react().insert(e, A(1)); }
        Op::Remove(s) => { let e = p.ents[s]; if let Some(mut ec) = c.get_entity(e) { ec.remove::<React<A>>(); } }
        Op::DespawnEnt(s) => { let e = p.ents[s]; if let Some(mut ec) = c.get_entity(e) { ec.despawn(); } }
        Op::DirectDespawn(s) => { let e = p.ents[s]; c.queue(move |w: &mut World| { w.despawn(e); }); }
        Op::DirectRemove(s) => { let e = p.ents[s]; c.queue(move |w: &mut World| { if let Ok(mut em) = w.get_entity_mut(e) { em.remove::<React<A>>(); } }); }
        Op::TrigRes => { c.react().trigger_resource_mutation::<R>(); }
        Op::Kill(t) => { let e = *p.sys[t]; c.queue(move |w: &mut World| { w.despawn(e); }); }
        Op::Revoke(v) => { if let Some(tok) = p.toks[v].clone() { c.react().revoke(tok); } }
        Op::Probe => { c.syscall((), |mut r: Readers| { let s = r.sample(); if s != "-" { viol(format!("probe saw {s}")); } }); }
    } }
}

fn body(idx: usize) -> impl FnMut(Readers, Commands, ResMut<Prog>, Local<u32>) + Send + Sync + 'static {
    let mut captured = 0u32;
    move |mut r: Readers, mut c: Commands, mut p: ResMut<Prog>, mut n: Local<u32>| {
        *n += 1; captured += 1;
        if *n != captured { viol(format!("local {} != captured {}", *n, captured)); }
        let s = r.sample();
        if s.contains('+') { viol(format!("T{idx}#{} saw two events: {s}", *n)); }
        log(format!("T{idx}#{}[{s}]", *n));
        let k = (*n as usize - 1).min(p.scripts[idx].len() - 1);
        let ops = p.scripts[idx][k].clone();
        exec_ops(&ops, &mut c, &mut p);
    }
}

fn gen_ops(rng: &mut Rng, nsys: usize, max: u64) -> Vec<Op> {
    let n = rng.below(max + 1);
    (0..n).map(|_| match rng.below(20) {
        0 | 1 | 2 => Op::Run(rng.below(nsys as u64) as usize),
        3 | 4 | 5 => Op::Sys(rng.below(nsys as u64) as usize, rng.chance(50)),
        6 | 7 => Op::Bcast(rng.chance(50)),
        8 | 9 => Op::EEv(rng.below(2) as usize, rng.chance(50)),
        10 | 11 => Op::Mutate(rng.below(2) as usize),
        12 => Op::Insert(rng.below(2) as usize),
        13 => Op::Remove(rng.below(2) as usize),
        14 => if rng.chance(50) { Op::DespawnEnt(rng.below(2) as usize) } else { Op::DirectDespawn(rng.below(2) as usize) },
        15 => Op::TrigRes,
        16 => Op::Kill(rng.below(nsys as u64) as usize),
        17 => Op::Revoke(rng.below(nsys as u64) as usize),
        18 => Op::DirectRemove(rng.below(2) as usize),
        _ => Op::Probe,
    }).collect()
}

fn run_one(seed: u64, verbose: bool) -> Vec<String> {
    let mut rng = Rng(seed);
    take_log(); DROPS.with(|d| d.borrow_mut().clear()); VIOL.with(|v| v.borrow_mut().clear());
    let mut app = App::new(); app.add_plugins(ReactPlugin).init_resource::<Prog>(); app.world_mut().insert_react_resource(R(0));
    let w = app.world_mut();
    let nsys = 2 + rng.below(3) as usize;
    let e0 = w.spawn_empty().id(); let e1 = w.spawn_empty().id();
    w.react(|rc| { rc.insert(e0, A(0)); rc.insert(e1, A(0)); });
    let mut scripts = vec![];
    for _ in 0..nsys { let runs = 1 + rng.below(3); let mut v: Vec<Vec<Op>> = (0..runs).map(|_| gen_ops(&mut rng, nsys, 4)).collect(); v.push(vec![]); scripts.push(v); }
    { let mut p = w.resource_mut::<Prog>(); p.scripts = scripts; p.ents = vec![e0, e1]; p.toks = vec![None; nsys]; }
    // spawn + register
    let mut persistent = vec![];
    for i in 0..nsys {
        let mode = match rng.below(3) { 0 => ReactorMode::Persistent, 1 => ReactorMode::Cleanup, _ => ReactorMode::Revokable };
        let sc = w.spawn_system_command(body(i));
        w.resource_mut::<Prog>().sys.push(sc);
        persistent.push(mode == ReactorMode::Persistent);
        let mask = rng.next();
        let tok = w.react(|rc| {
            // one registration call with a bundle chosen by mask (fixed max bundle; use optional pieces through separate persistent calls is not allowed for rc modes, so build tuple variants)
            let b = |k: u32| mask & (1 << k) != 0;
            macro_rules! reg { ($($t:expr),*) => { rc.with(($($t,)*), sc, mode) } }
            match mask % 6 {
                0 => reg!(broadcast::<X>(), entity_event::<X>(e0), entity_mutation::<A>(e1), resource_mutation::<R>()),
                1 => reg!(broadcast::<Y>(), broadcast::<X>(), mutation::<A>(), despawn(e0), removal::<A>()),
                2 => reg!(any_entity_event::<X>(), entity_event::<Y>(e1), insertion::<A>(), entity_removal::<A>(e0), despawn(e1)),
                3 => reg!(entity_event::<X>(e0), entity_event::<X>(e1), entity_mutation::<A>(e0), entity_mutation::<A>(e1), broadcast::<X>()),
                4 => reg!(despawn(e0), despawn(e1)),
                _ => { let _ = b(0); reg!(broadcast::<X>(), broadcast::<Y>(), any_entity_event::<Y>(), entity_insertion::<A>(e0), removal::<A>(), mutation::<A>()) }
            }
        });
        w.resource_mut::<Prog>().toks[i] = tok;
    }
    // driver steps
    let mut killed_possible = w.resource::<Prog>().scripts.iter().flatten().flatten().any(|o| matches!(o, Op::Kill(_)));
    let steps = 1 + rng.below(4);
    for step in 0..steps {
        let ops = gen_ops(&mut rng, nsys, 3);
        if ops.iter().any(|o| matches!(o, Op::Kill(_))) { killed_possible = true; }
        if verbose { log(format!("-- step {step} {:?}", ops)); if step == 0 { let p = w.resource::<Prog>(); for (i, sc) in p.scripts.iter().enumerate() { log(format!("script T{i}: {:?}", sc)); } } }
        let r = catch_unwind(AssertUnwindSafe(|| {
            w.resource_scope(|w: &mut World, mut p: Mut<Prog>| { let mut c = w.commands(); exec_ops(&ops, &mut c, &mut p); });
            w.flush();
            if rng.chance(50) { garbage_collect_entities(w); schedule_removal_and_despawn_reactors(w); }
        }));
        if r.is_err() { viol(format!("panic in step {step}")); return VIOL.with(|v| v.borrow().clone()); }
        // all sent payloads applied so far must be dropped exactly once... (payloads sent from bodies are applied within the tree)
    }
    garbage_collect_entities(w); schedule_removal_and_despawn_reactors(w); garbage_collect_entities(w);
    // payload conservation
    let log_now = LOG.with(|l| l.borrow().clone());
    let mut counts: HashMap<u32, u32> = HashMap::new();
    for l in &log_now { if let Some(rest) = l.strip_prefix("dropX").or_else(|| l.strip_prefix("dropY")) { *counts.entry(rest.parse().unwrap()).or_default() += 1; } }
    let sent = w.resource::<Prog>().sent.clone();
    for id in sent { let c = counts.get(&id).copied().unwrap_or(0); if c != 1 { viol(format!("payload {id} dropped {c} times")); } }
    // residue: fresh system event to each live system must be seen exactly
    let syss = w.resource::<Prog>().sys.clone();
    for (i, sc) in syss.iter().enumerate() {
        if w.get_entity(**sc).is_err() { continue; }
        { let mut p = w.resource_mut::<Prog>(); for s in p.scripts.iter_mut() { *s = vec![vec![]]; } }
        take_log();
        let r = catch_unwind(AssertUnwindSafe(|| w.send_system_event(*sc, X(900000 + i as u32))));
        if r.is_err() { viol(format!("panic in sweep {i}")); break; }
        let l = take_log();
        let want = format!("[sx{}]", 900000 + i as u32);
        if !l.iter().any(|x| x.starts_with(&format!("T{i}#")) && x.ends_with(&want)) { viol(format!("sweep T{i} got {:?}", l)); }
    }
    // teardown: revoke every token; despawn trigger entities; poll+gc; revokable reactors and despawn-only cleanup reactors must be gone
    {
        let toks = w.resource::<Prog>().toks.clone();
        let r = catch_unwind(AssertUnwindSafe(|| {
            w.react(|rc| { for t in toks.iter().flatten() { rc.revoke(t.clone()); rc.revoke(t.clone()); } });
            w.despawn(e0); w.despawn(e1);
            garbage_collect_entities(w); schedule_removal_and_despawn_reactors(w); garbage_collect_entities(w);
        }));
        if r.is_err() { viol("panic in teardown".into()); }
        for (i, sc) in syss.iter().enumerate() {
            let alive = w.get_entity(**sc).is_ok();
            if toks[i].is_some() && alive { viol(format!("revokable T{i} alive after revoke+gc")); }
            if persistent[i] && !alive && !killed_possible { viol(format!("persistent T{i} dead")); }
        }
    }
    // entity conservation
    let alive_sys = syss.iter().filter(|s| w.get_entity(***s).is_ok()).count();
    let alive_ent = [e0, e1].iter().filter(|e| w.get_entity(**e).is_ok()).count();
    let total = w.entities().len() as usize;
    if total != alive_sys + alive_ent { viol(format!("entity count {total} != sys {alive_sys} + ents {alive_ent}")); }
    // persistent must be alive unless killed... skip. lifetime: non-persistent with no registrations left should be dead - skip (needs model)
    VIOL.with(|v| v.borrow().clone())
}

fn main() {
    let args: Vec<String> = std::env::args().collect();
    std::panic::set_hook(Box::new(|_| {}));
    if args.len() > 1 { let seed: u64 = args[1].parse().unwrap(); std::panic::take_hook(); let v = run_one(seed, true); println!("{:#?}\n{:?}", FULL.with(|l| l.borrow().clone()), v); return; }
    let n: u64 = 200000; let mut bad = 0; let mut kinds: HashMap<String, (u64, u64)> = HashMap::new();
    for seed in 1..=n { let v = run_one(seed, false); if !v.is_empty() { bad += 1; let k = v[0].split(|c: char| c.is_ascii_digit()).next().unwrap().to_string(); let e = kinds.entry(k).or_insert((0, seed)); e.0 += 1; } }
    println!("runs={n} bad={bad}"); for (k, (c, s)) in kinds { println!("  {c:6} first-seed={s} {k}"); }
}
