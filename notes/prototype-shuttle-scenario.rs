use bevy::prelude::*;
use bevy_cobweb::prelude::*;
use shuttle::thread;
use std::sync::atomic::{AtomicUsize, Ordering};
use std::sync::Arc;

fn hook() { thread::yield_now(); }

fn scenario(leaks: Arc<AtomicUsize>, early: Arc<AtomicUsize>) {
    bevy_cobweb::verif::set_yield_hook(Some(hook));
    let mut app = App::new();
    app.add_plugins(ReactPlugin);
    let world = app.world_mut();
    let e = world.spawn_empty().id();
    let sig = world.resource::<AutoDespawner>().prepare(e);
    let s2 = sig.clone();
    let s3 = if std::env::args().nth(2).is_some() { Some(sig.clone()) } else { None };
    let h = thread::spawn(move || { drop(s2); });
    let h2 = thread::spawn(move || { drop(sig); });
    garbage_collect_entities(world);
    if s3.is_some() && world.get_entity(e).is_err() { early.fetch_add(1, Ordering::Relaxed); }
    h.join().unwrap(); h2.join().unwrap();
    drop(s3);
    garbage_collect_entities(world);
    if world.get_entity(e).is_ok() { leaks.fetch_add(1, Ordering::Relaxed); }
    bevy_cobweb::verif::set_yield_hook(None);
}

fn main() {
    let leaks = Arc::new(AtomicUsize::new(0)); let early = Arc::new(AtomicUsize::new(0));
    let (l, e) = (leaks.clone(), early.clone());
    let t = std::time::Instant::now();
    let mut cfg = shuttle::Config::new();
    cfg.stack_size = 1 << 20;
    let which = std::env::args().nth(1).unwrap_or("random".into());
    let n = 5000;
    if which == "pct" {
        let sched = shuttle::scheduler::PctScheduler::new_from_seed(7, 3, n);
        shuttle::Runner::new(sched, cfg).run(move || scenario(l.clone(), e.clone()));
    } else {
        let sched = shuttle::scheduler::RandomScheduler::new_from_seed(7, n);
        shuttle::Runner::new(sched, cfg).run(move || scenario(l.clone(), e.clone()));
    }
    println!("{which}: iters={n} leaks={} early={} {:?}", leaks.load(Ordering::Relaxed), early.load(Ordering::Relaxed), t.elapsed());
}
