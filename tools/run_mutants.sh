#!/usr/bin/env bash
# run_mutants.sh [ids...] : applies each seeded change to /repo, runs the quick check of the property it breaks
# (plus any extra properties given in meta.json "also_check"), reverts. Prints a table.
mkdir -p /tmp/scratch; cd /verif
ids="$@"; [ -z "$ids" ] && ids=$(ls seeded)
for id in $ids; do
  d=seeded/$id
  prop=$(python3 -c "import json;print(json.load(open('$d/meta.json'))['breaks'])")
  git -C /repo checkout -q -- . ; git -C /repo apply /verif/$d/patch.diff || { echo "$id APPLY-FAILED"; continue; }
  res=""
  for p in $prop $(python3 -c "import json;print(' '.join(json.load(open('$d/meta.json')).get('also_check',[])))"); do
    out=$(./check $p quick ${RUNS:+--runs $RUNS} --out /tmp/scratch/mut-ev.json 2>&1); code=$?
    first=$(echo "$out" | grep -E "^C[0-9]+ \[" | head -1 | cut -c1-160)
    res="$res $p:exit=$code"
    [ -n "$first" ] && res="$res {$first}"
  done
  git -C /repo checkout -q -- .
  echo "$id =>$res"
done
rm -f /verif/replays/*.json
