#!/usr/bin/env bash
# regress_isolated.sh [ids...] : runs every seeded change against a *copy* of /verif (as it is now) and a scratch worktree of
# /repo, so that /repo and /verif stay free for other work. Output: one line per seeded change.
set -u
R=/tmp/regr
rm -rf $R/verif; mkdir -p $R
git -C /repo worktree remove --force $R/repo 2>/dev/null; git -C /repo worktree prune
git -C /repo worktree add --detach $R/repo HEAD >/dev/null 2>&1 || { echo "cannot create worktree"; exit 2; }
rsync -a --exclude target --exclude .git /verif/ $R/verif/
[ -d $R/target ] || cp -a /verif/target $R/target
ln -sfn $R/target $R/verif/target
sed -i "s#path = \"/repo\"#path = \"$R/repo\"#" $R/verif/sim/Cargo.toml
export VERIF_DIR=$R/verif
cd $R/verif
ids="$@"; [ -z "$ids" ] && ids=$(ls seeded)
for id in $ids; do
  d=seeded/$id
  prop=$(python3 -c "import json;print(json.load(open('$d/meta.json'))['breaks'])")
  git -C $R/repo checkout -q -- . ; git -C $R/repo apply $R/verif/$d/patch.diff || { echo "$id APPLY-FAILED"; continue; }
  res=""
  for p in $prop $(python3 -c "import json;print(' '.join(json.load(open('$d/meta.json')).get('also_check',[])))"); do
    out=$(./check $p quick ${RUNS:+--runs $RUNS} --out $R/mut-ev.json 2>&1); code=$?
    first=$(echo "$out" | grep -E "^C[0-9]+ \[" | head -1 | cut -c1-140)
    runidx=$(echo "$out" | grep -E "^C[0-9]+ \[" | head -1 | grep -o "(run [0-9]*" | head -1 | tr -d '(')
    res="$res $p:exit=$code [$runidx]"
    [ -n "$first" ] && res="$res {$first}"
  done
  git -C $R/repo checkout -q -- .
  echo "$id =>$res"
done
git -C /repo worktree remove --force $R/repo; git -C /repo worktree prune
