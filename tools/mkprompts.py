#!/usr/bin/env python3
"""mkprompts.py <round-letter> : writes /tmp/wt/prompts/<Cxx>.txt for a round of independent fault-seeding sub-agents.
Each prompt contains only: the property text, the agent's scratch worktree path, the deliverable protocol, a list of
mechanisms earlier seeders already used (so that it picks another), and a suggested focus area of the source tree.
Nothing about the checks in /verif is given to the agents."""
import json,sys,os
props={}
for l in open('/verif/properties.jsonl'):
    p=json.loads(l); props[p['id']]=p
tried={
'C01':["mutation dispatch iterating the insertion list","revoking the last reactor of one kind on a component dropping the other kinds' entry (react_cache)","token construction de-duplicating triggers of one bundle","replay loop over postponed commands skipping the element behind a replayed one","revoke loop aborted by a `return` at an entity trigger whose entity is gone","ReactPlugin overwriting an existing ReactCache (reactors added before the plugin)"],
'C02':["replay of postponed commands skipping some runs","postponed-buffer prefix skipping with nested self-recursion","buffer append swapping buffers between two busy systems","entry poll moved after the callback was taken (root aborts reactions targeting itself)","entity-event fast path that checks the event target instead of the reactor for liveness","apply_deferred skipped when has_deferred() is false (Commands inside a ParamSet)"],
'C03':["abort path skipping event setup","broadcast reader not checking the reacting flag","ticket counter reset at root","exclusive system's cleanup run after its queued commands were flushed","`rev().position()` index used as a forward index in the entity-reaction tracker","flush after the removal/despawn poll made conditional (pending exclusive cleanup not applied before a direct SystemCommand::apply)"],
'C04':["cleanup moved after apply_deferred","reacting flag kept until the last reader of an event","conditional flush in exclusive reactors","postponed run finished with the outer run's cleanup","`once` no longer despawning itself (second in-flight despawn reaction never cleans up)","EventAccessTracker::start popping the newest prepared entry instead of looking up its ticket"],
'C05':["reader counter off by one","pruning postponed commands of a dead system","zero-listener entity event leaking its data entity","reader counter counting only live reactors while dead ones are still scheduled","entity reactions finished with the entity-event cleanup (decrementing another payload's reader count)","entity-event reaction returning early when the event target is dead (reader share never released)"],
'C06':["entity revoke ignoring the reactor kind","revocation loop stopping at a dead entity","binary search in revoke over an unsorted list","per-component entry with three kind lists dropped when one list empties","RevokeToken::new_from de-duplicating reactor types","broadcast revoke taking the list out of the map and returning early on a miss"],
'C07':["despawn tracker keeping its handle","revoke dropping other kinds' entries","token de-duplicating triggers (get_reactor_types)","revoke loop returning at an entity without EntityReactors","despawn tracker purging entries with older tickets","DespawnTracker component re-inserted (dropping the old one) when the map entry had been erased by a revoke"],
'C08':["despawn map entry not removed","despawn tracker replaced on re-registration","removal checker skipped when the buffered event count repeats between frames","removal checker unregistered when the last type-wide reactor of a component is revoked","removal buffer de-duplicated with Vec::dedup","despawn notification drain stopping at the first notified entity without reactors (and_then)"],
'C09':["postponed replay only at root","swap_remove in the postponed buffer","exit-boundary poll moved before callback reinsertion","append of surviving postponed commands reversing their order","despawn notification drain stopping (map_while) at an entity without reactors","World::send_system_event deferring to the command queue when called inside a tree"],
'C10':["racy strong_count()==1 check-then-send","non-recursive collection","unwrap on a missing entity in the collector","collector handling only one entity per call","collector de-duplicating by entity index","repeated setup_auto_despawn replacing the channel","bounded channel + try_send losing notifications past 64 pending","collector loop stopping at the first already-despawned entity"],
'C11':["tree counter never reset","postponed abort skipping setup (tracker entry/data entity leak)","garbage collection snapshotting the channel once (chained auto-despawn)","queue append stranding live postponed commands in a spare buffer","`once` no longer despawning itself (despawn tracker left reading)","despawn notification drain returning at the first notified entity without reactors"],
'C12':["tracker taking the last entry instead of the matching one","swap_remove in the postponed buffer","tracker pruning older entries","re-merge of retained postponed commands with push_front reversing them","removal reactions queued in two passes (entity-specific of all entities first)","flush after the removal/despawn poll made conditional (direct apply overtakes an earlier queued event)"],
'C13':["system re-initialised on its 5th run","exclusive system losing Locals after returning WarnErr","App::add_reactor sharing one system between two calls with the same closure type","cleanup-less run path never promoting New to Initialized (exclusive Locals rebuilt)","exclusive system re-initialised when the world's change tick moved past its last run","CallbackSystem::initialize re-initialising an already initialised system"],
'C14':["set_if_neq triggering unconditionally","mutation trigger dropped for a despawned entity","ReactiveMut::get_mut triggering on lookup failure","per-component reactor entry dropped when one kind list empties","resource trigger skipped when the resource is absent at application time","mutation fan-out returning early when the entity's EntityReactors component is empty"],
'C15':["one-off reactor not revoking its triggers","two despawn triggers of one `once` in a batch both firing","`once` registered as persistent (empty bundle / revoked before firing never collected)","token type list de-duplicated so one duplicate registration survives revocation","revoke loop aborted by a `return` at an entity trigger whose entity is gone","once() cleanup moved into a `syscall` closure that is cached by type"],
'C16':["entity-world-reactor data removed unconditionally","multi-entity remove returning early","EntityReactor::remove ignoring the trigger kind","per-component reactor entry dropped when one kind list empties (react_cache)","EntityReactors::remove removing only the first matching entry","EntityReactor::remove skipping the data cleanup when the bundle names fewer triggers than the reactor's full bundle"],
'C17':["spawned system not reinserted after the call","SysName ignoring the function type","syscall state dropped on some calls","named_syscall get-or-insert replacing a registered system","spawned_syscall returning Err when the system despawns itself during the call","CallbackSystem re-initialising on every run (change-detection baseline reset)","apply_deferred skipped when has_deferred() is false (Commands inside a ParamSet)","named_syscall keying its system by the converted system type instead of the function type"],
'C18':["abort path skipping cleanup","postponed commands of a dead system discarded without releasing payloads","insert instead of try_insert on a stale entity","broadcast/entity-event scheduling skipping dead reactors that were counted as readers","revoke loop aborted by a `return` at a stale entity","despawn trigger registration trusting a stale despawn-table entry instead of checking the entity"],
}
focus={
'C01':"src/react/reaction_triggers_impl.rs, src/react/utils.rs (EntityReactors), src/react/react_commands.rs, the schedule_* functions of src/react/react_cache.rs other than the component ones",
'C02':"src/react/commands.rs, src/react/system_command_spawning.rs, src/ecs/callbacks.rs, src/react/extensions.rs",
'C03':"the reader/tracker files: src/react/entity_reaction_readers.rs, src/react/event_readers.rs, src/react/system_event_reader.rs, src/react/despawn_reader.rs, and src/react/commands.rs",
'C04':"the reader/tracker files (entity_reaction_readers.rs, event_readers.rs, system_event_reader.rs, despawn_reader.rs) and src/react/commands.rs",
'C05':"src/react/commands.rs (DataEntityCounter, end_* functions), src/react/system_event_reader.rs, src/react/event_readers.rs, src/react/extensions.rs (send_system_event)",
'C06':"src/react/utils.rs, src/react/world_reactor.rs, src/react/reaction_triggers_impl.rs, src/react/react_commands.rs",
'C07':"src/react/utils.rs (ReactorHandle / AutoDespawn handles), src/react/react_commands.rs (ReactorMode::prepare, with), src/react/despawn_reader.rs, src/react/reaction_triggers_impl.rs",
'C08':"the polling path: ReactCache::schedule_removal_reactions / schedule_despawn_reactions / despawn registration in src/react/react_cache.rs, src/react/despawn_reader.rs, src/react/utils.rs, src/react/reaction_triggers_impl.rs",
'C09':"src/ecs/callbacks.rs and src/react/system_command_spawning.rs (where deferred commands are applied), src/react/react_cache.rs (order in which reaction commands are queued), src/react/extensions.rs",
'C10':"src/ecs/auto_despawn.rs and the call sites of garbage_collect_entities / AutoDespawner::prepare elsewhere (src/ecs/spawned_syscall.rs, src/react/system_command_spawning.rs, src/react/react_commands.rs)",
'C11':"src/react/commands.rs, the tracker resources in the reader files, src/react/plugin.rs, src/react/system_command_spawning.rs",
'C12':"the order in which ReactCache::schedule_* queue reaction commands (src/react/react_cache.rs), the tracker resources in the reader files, src/react/commands.rs",
'C13':"src/react/system_command_spawning.rs, src/react/react_commands.rs (on/on_persistent/on_revokable/with), src/react/world_reactor.rs, src/react/extensions.rs, src/ecs/callbacks.rs",
'C14':"src/react/react_component.rs, src/react/react_resource.rs, src/react/react_commands.rs (insert / trigger_resource_mutation), src/react/react_cache.rs (schedule_insertion_reaction / schedule_mutation_reaction / schedule_resource_reaction)",
'C15':"src/react/react_commands.rs (once), src/react/utils.rs, src/react/despawn_reader.rs",
'C16':"src/react/world_reactor.rs and src/react/entity_world_reactor.rs (EntityLocal, cleanup_reactor_data, add/remove), src/react/entity_reaction_readers.rs",
'C17':"src/ecs/syscall.rs, src/ecs/named_syscall.rs, src/ecs/spawned_syscall.rs",
'C18':"stale-reference handling anywhere except the abort path of the runner: src/react/react_commands.rs, src/react/utils.rs, src/react/entity_world_reactor.rs, src/react/world_reactor.rs, src/react/reaction_triggers_impl.rs, src/ecs/spawned_syscall.rs",
}
rnd=sys.argv[1] if len(sys.argv)>1 else 'd'
os.makedirs('/tmp/wt/prompts',exist_ok=True)
for pid,p in props.items():
    text=p['statement']; title=p['title']
    t="\n".join("  - "+x for x in tried[pid])
    wt=f"/tmp/wt/{pid}"
    prompt=f"""You are helping to evaluate a verification framework for the Rust crate `bevy_cobweb` (a Bevy ECS reactivity library: reactor registration/revocation, reaction triggers, system commands/events, recursive reaction-tree execution with ref-counted auto-despawn). Your job is to act as a *fault seeder*: produce ONE realistic, subtle code change to the library that BREAKS the semantic property below while the crate still compiles and its existing test suite (81 tests) still passes.

You have your own scratch git worktree of the library at {wt} (a detached checkout; `target/` is pre-warmed so builds are incremental). Work ONLY inside {wt}. Never touch /repo or /verif (do not read /verif either). Everything is offline: always pass `--offline` to cargo. The machine is shared with other jobs, so builds may take a few minutes; be patient and do not run more than one cargo command at a time.

PROPERTY {pid}: {title}
{text}

What I want:
1. Read the library source under {wt}/src (README.md and tests/ show what the existing tests cover) and find a code site where a plausible-looking edit (a refactor, an "optimisation", an off-by-one, a reordered cleanup, a wrong container operation, an early return, a stale cached value, two cooperating sites that each look fine alone, ...) violates the property above.
2. The violation must need something SPECIFIC to manifest, and for this round I am particularly interested in DELAYED / SECOND-ORDER manifestation: every individual operation should look right when it happens, and only a LATER, DIFFERENT operation behaves wrongly because of state the change left behind or failed to update — a later reaction tree, a later frame (`App::update`), a later registration / revocation / re-registration, a later garbage collection, reuse of an entity index after a despawn, a second world reactor or a second entity, the Nth occurrence of something. Two cooperating edits in different functions or files (each of which looks fine alone) are especially welcome. It must NOT be something ordinary use would expose at once, and it must NOT be caught by the existing tests.
3. Mechanisms that were ALREADY used by earlier seeders for this property — pick a DIFFERENT code site and a DIFFERENT mechanism from all of these:
{t}
   Suggested area to look for a fresh site (earlier seeders concentrated on src/react/syscommand_runner.rs, src/react/command_queue.rs and the component tables of src/react/react_cache.rs — avoid those unless you find nothing else): {focus[pid]}.
4. The change must be to the library's non-test source (src/**, not src/verif.rs and not anything under `#[cfg(ukoehb_bevy_cobweb_verif)]`); keep it small (ideally < 30 changed lines) and natural looking: no `if entity.index() == 7`-style backdoors, no randomness, no new dependencies, no panics added on purpose unless the property is about panics.
5. Write a demonstration: a self-contained integration test file `demo.rs` (uses only `bevy` and `bevy_cobweb` public API, like the files in tests/test/) with one or more `#[test]` functions that PASS on the unmodified library and FAIL with your change applied. The demo should assert on behaviour the property describes (as literally stated), through the public API.

Deliverables, all in {wt}/MUTANT/ :
  - patch.diff   : output of `git diff -- src` (must apply to the clean worktree HEAD with `git apply`)
  - demo.rs      : the demonstration test file
  - notes.md     : what the change is, why it breaks {pid}, exactly what is needed for it to manifest, and the commands you ran with their results
How to run the demo: copy it to {wt}/tests/seeded_demo.rs and append to {wt}/Cargo.toml:
    [[test]]
    name = "seeded_demo"
    path = "tests/seeded_demo.rs"
then `cargo test --offline --test seeded_demo`.

You MUST verify all of the following yourself before finishing, and report the literal `test result:` lines:
  a. clean tree (`git checkout -- src`): `cargo test --offline --test seeded_demo` -> all demo tests pass
  b. with the change applied: `cargo test --offline --test tests` -> `81 passed; 0 failed`
  c. with the change applied: `cargo test --offline --test seeded_demo` -> at least one demo test FAILS
  d. with the change applied: `RUSTFLAGS="--cfg ukoehb_bevy_cobweb_verif" cargo build --offline --target-dir target-hook` compiles (the crate has cfg-gated instrumentation in src/verif.rs and a few hook call sites; your change must not break that build).
Leave the worktree with the change applied. If your first idea is caught by the existing tests or does not really violate the property as literally stated, iterate with another idea. Do not weaken or edit existing tests. In your final answer give: the one-paragraph description of the change, what it needs to manifest, and the four verification results."""
    open(f'/tmp/wt/prompts/{pid}.txt','w').write(prompt)
print("wrote prompts for round",rnd)
