#!/usr/bin/env python3
import json,sys,subprocess,os
f=sys.argv[1]
r=json.load(open(f))
print("==",r['property'],r['rule'],"::",r['message'][:700])
p=r['program']
print("slots",p['slots'])
for i,x in enumerate(p['insts']):
    if any(x['scripts']) or x['origin']!='Pre' or x['flavour']!='Plain':
        print(" inst",i,x['origin'],x['flavour'],json.dumps(x['scripts']))
for i,x in enumerate(p.get('frame_systems',[])): print(" frame",i,json.dumps(x))
for i,s in enumerate(p['steps']): print(" step",i,json.dumps(s))
env=dict(os.environ,VERBOSE="1")
out=subprocess.run(["/verif/target/release/cobsim","replay",f],capture_output=True,text=True,env=env).stdout
for l in out.split('\n'):
    pass
    if 'Post(' in l: 
        l=l[:160]
    print(l.replace("b: [None, None], ","").replace("e: [None, None], ","").replace("s: [None, None], ","").replace("ins: [None, None], ","").replace("mu: [None, None], ","").replace("rem: [None, None], ","").replace("d: None, ","").replace("second_take: false",""))
