#!/usr/bin/env python3
"""mkmutant.py <id> <prop> <file> <old> <new> [<file> <old> <new> ...] -- writes /verif/seeded/<id>/patch.diff (repo left clean)"""
import sys,subprocess,os,json
mid,prop=sys.argv[1],sys.argv[2]
args=sys.argv[3:]
os.chdir('/repo')
assert subprocess.run(['git','status','--porcelain','--untracked-files=no'],capture_output=True,text=True).stdout.strip()=='' , 'repo dirty'
for i in range(0,len(args),3):
    f,old,new=args[i:i+3]
    s=open(f).read()
    assert s.count(old)==1,(f,old,s.count(old))
    open(f,'w').write(s.replace(old,new))
d=subprocess.run(['git','diff'],capture_output=True,text=True).stdout
subprocess.run(['git','checkout','--','.'])
os.makedirs(f'/verif/seeded/{mid}',exist_ok=True)
open(f'/verif/seeded/{mid}/patch.diff','w').write(d)
meta={'id':mid,'breaks':prop,'origin':'hand-written sensitivity mutant (DESIGN 9)'}
p=f'/verif/seeded/{mid}/meta.json'
if not os.path.exists(p): json.dump(meta,open(p,'w'),indent=1)
print('wrote',mid,len(d.splitlines()),'lines')
