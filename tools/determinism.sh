#!/usr/bin/env bash
# Proves replay determinism: the same seeds must give the same (program, trace, verdict) hashes in separate processes
# and with different worker counts.
cd /verif; ./check build || exit 2
runs=${1:-20000}; fail=0
for prof in C01 C02 C03 C04 C05 C06 C07 C08 C08F C09 C09P C10 C10T C11 C12 C13 C14 C15 C16 C17 C18; do
  a=$(target/release/cobsim hashes --profile $prof --runs $runs --threads 1 --seed 7 | md5sum)
  b=$(target/release/cobsim hashes --profile $prof --runs $runs --threads 4 --seed 7 | md5sum)
  c=$(target/release/cobsim hashes --profile $prof --runs $runs --threads 16 --seed 7 | md5sum)
  if [ "$a" = "$b" ] && [ "$b" = "$c" ]; then echo "$prof: $runs runs x 3 processes (1/4/16 workers): identical"; else echo "$prof: DIVERGENCE $a $b $c"; fail=1; fi
done
# thread scenario: same seed => same programs, same schedules, same histories
for i in 1 2; do target/release/cobsim check C10 quick --runs 1000 --seed 7 --out /tmp/cobsim-det-$i.json > /dev/null; done
python3 - <<'PY' || fail=1
import json
a,b=[json.load(open(f'/tmp/cobsim-det-{i}.json'))['coverage']['thread_scenario'] for i in (1,2)]
for d in (a,b): d.pop('executions_per_hour',None)
print('shuttle thread scenario: 2 processes x', a['executions_completed'], 'executions:', 'identical' if a==b else 'DIVERGENCE')
raise SystemExit(0 if a==b else 1)
PY
rm -f /tmp/cobsim-det-1.json /tmp/cobsim-det-2.json
exit $fail
