#!/usr/bin/env bash
# all_quick.sh [extra seeds...] : every property's quick check on the current /repo working tree with the default seed
# (evidence files are rewritten), then with each extra seed (evidence goes to a scratch file). Exit 1 if any fails.
# Run this -- with a few extra seeds -- before every commit that touches the spec or the generator.
mkdir -p /tmp/scratch; cd ${VERIF_DIR:-/verif}; rc=0
for p in C01 C02 C03 C04 C05 C06 C07 C08 C09 C10 C11 C12 C13 C14 C15 C16 C17 C18; do
  out=$(./check $p quick 2>/dev/null); code=$?
  echo "$out" | tail -1
  python3 -c "
import json
d=json.load(open('evidence/$p.json'))['coverage'].get('violations_of_other_properties_seen')
if d: print('  NOTE $p: rules of other properties fired on this tree (latent spec imprecision or defect):', d)"
  if [ $code -ne 0 ]; then rc=1; echo "$out" | grep -E "^C[0-9]+ \[|VIOLATION|ERROR" | head -5; fi
  for s in "$@"; do
    out=$(VERIF_SEED=$s ./check $p quick --out /tmp/scratch/all_quick_ev.json 2>/dev/null); code=$?
    if [ $code -ne 0 ]; then rc=1; echo "seed $s: $(echo "$out" | grep -E "^C[0-9]+ \[|VIOLATION|ERROR" | head -3)"; fi
  done
done
exit $rc
