#!/usr/bin/env bash
# all_quick.sh : every property's quick check on the current /repo working tree; evidence files are rewritten. Exit 1 if any fails.
cd /verif; rc=0
for p in C01 C02 C03 C04 C05 C06 C07 C08 C09 C10 C11 C12 C13 C14 C15 C16 C17 C18; do
  out=$(./check $p quick 2>&1); code=$?
  echo "$out" | tail -1
  if [ $code -ne 0 ]; then rc=1; echo "$out" | grep -E "^C[0-9]+ \[|VIOLATION|ERROR" | head -5; fi
done
exit $rc
