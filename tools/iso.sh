#!/usr/bin/env bash
# iso.sh <cmd...> : syncs /verif (as it is now, committed or not) to /tmp/iso/verif, points it at a scratch worktree of /repo's HEAD
# (/tmp/iso/repo) and runs the command there -- for trying out framework changes while /repo is busy with seeded changes.
# ISO_PATCH=<file> applies a seeded change to the scratch worktree first.
set -u
R=${ISO_DIR:-/tmp/iso}
mkdir -p $R
if [ ! -d $R/repo ]; then git -C /repo worktree add --detach $R/repo HEAD >/dev/null 2>&1 || { echo "cannot create worktree"; exit 2; }; fi
git -C $R/repo checkout -q -- . ; git -C $R/repo checkout -q --detach $(git -C /repo rev-parse HEAD)
[ -n "${ISO_PATCH:-}" ] && { git -C $R/repo apply "$ISO_PATCH" || exit 2; }
rsync -a --delete --exclude target --exclude .git --exclude evidence /verif/ $R/verif/
mkdir -p $R/verif/evidence
[ -d $R/target ] || cp -a /verif/target $R/target
ln -sfn $R/target $R/verif/target
sed -i "s#path = \"/repo\"#path = \"$R/repo\"#" $R/verif/sim/Cargo.toml
export VERIF_DIR=$R/verif
cd $R/verif
"$@"
