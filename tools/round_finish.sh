#!/usr/bin/env bash
# round_finish.sh <Cxx> <seeded-id> : confirm a sub-agent's change in its scratch worktree /tmp/wt/<Cxx>, file it under
# /verif/seeded/<id>, remove the worktree, then run the property's quick check against the change.
set -u
p=$1; id=$2
cd /verif
out=$(bash tools/verify_seeded.sh /tmp/wt/$p $id $p 2>&1 | tail -6)
echo "$out" | grep -E "demo on|suite with|demo with|hook build|CONFIRMED" | sed "s/^/[$id] /"
git -C /repo worktree remove --force /tmp/wt/$p 2>/dev/null; git -C /repo worktree prune
if echo "$out" | grep -q "^CONFIRMED"; then tools/run_mutants.sh $id 2>&1 | tail -1; fi
