#!/usr/bin/env bash
# verify_seeded.sh <worktree> <seeded-id> <prop> : independently confirm a sub-agent's change, then file it under /verif/seeded/<id>/
set -u
wt=$1; id=$2; prop=$3
cd $wt || exit 2
[ -f MUTANT/patch.diff ] || { echo "no MUTANT/patch.diff"; exit 2; }
git checkout -q -- src
git apply --check MUTANT/patch.diff || { echo "patch does not apply to HEAD"; exit 2; }
# without the change: demo passes
cp MUTANT/demo.rs tests/seeded_demo.rs 2>/dev/null
grep -q 'name = "seeded_demo"' Cargo.toml || printf '\n[[test]]\nname = "seeded_demo"\npath = "tests/seeded_demo.rs"\n' >> Cargo.toml
clean=$(cargo test --offline --test seeded_demo 2>&1 | grep -E "^test result" | head -1)
git apply MUTANT/patch.diff
suite=$(cargo test --workspace --no-fail-fast --offline --test tests 2>&1 | grep -E "^test result" | head -1)
demo=$(cargo test --offline --test seeded_demo 2>&1 | grep -E "^test result" | head -1)
hook=$(RUSTFLAGS="--cfg ukoehb_bevy_cobweb_verif" cargo build --offline --target-dir target-hook 2>&1 | grep -E "^error" | head -1)
echo "demo on clean tree : $clean"
echo "suite with change  : $suite"
echo "demo with change   : $demo"
echo "hook build errors  : ${hook:-none}"
ok=1
echo "$clean" | grep -q "ok\." || ok=0
echo "$suite" | grep -q "ok. 81 passed" || ok=0
echo "$demo" | grep -q "FAILED" || ok=0
[ -z "$hook" ] || ok=0
if [ $ok = 1 ]; then
  d=/verif/seeded/$id; mkdir -p $d
  cp MUTANT/patch.diff $d/patch.diff; cp MUTANT/demo.rs $d/demo.rs; cp MUTANT/notes.md $d/notes.md 2>/dev/null; cp MUTANT/demo_cargo_snippet.txt $d/ 2>/dev/null
  python3 - "$d" "$id" "$prop" "$clean" "$suite" "$demo" <<'PY'
import json,sys
d,i,p,clean,suite,demo=sys.argv[1:7]
json.dump({"id":i,"breaks":p,"origin":"independent sub-agent given only the property text and a scratch worktree","confirmed":{"demo_on_clean_tree":clean,"existing_suite_with_change":suite,"demo_with_change":demo,"hooked_build":"compiles"},"needs":"see notes.md"},open(d+"/meta.json","w"),indent=1)
PY
  echo "CONFIRMED -> $d"
else echo "NOT CONFIRMED"; fi
