//! Seeded program generator (swarm style: sizes, op mix and fault kinds vary per run).
use crate::dsl::*;
use std::collections::HashSet;

#[derive(Clone)]
pub struct Rng(pub u64);

impl Rng
{
    pub fn new(seed: u64) -> Self { let mut r = Rng(seed ^ 0x9E37_79B9_7F4A_7C15); r.next(); r }
    pub fn next(&mut self) -> u64
    {
        self.0 = self.0.wrapping_add(0x9E37_79B9_7F4A_7C15);
        let mut z = self.0;
        z = (z ^ (z >> 30)).wrapping_mul(0xBF58_476D_1CE4_E5B9);
        z = (z ^ (z >> 27)).wrapping_mul(0x94D0_49BB_1331_11EB);
        z ^ (z >> 31)
    }
    pub fn below(&mut self, n: u64) -> u64 { if n == 0 { 0 } else { self.next() % n } }
    pub fn range(&mut self, lo: u64, hi: u64) -> u64 { lo + self.below(hi - lo + 1) }
    pub fn chance(&mut self, pct: u64) -> bool { self.below(100) < pct }
    pub fn pick<'a, T>(&mut self, v: &'a [T]) -> &'a T { &v[self.below(v.len() as u64) as usize] }
    pub fn weighted(&mut self, w: &[u32]) -> usize
    {
        let total: u64 = w.iter().map(|x| *x as u64).sum();
        if total == 0 { return 0; }
        let mut r = self.below(total);
        for (i, x) in w.iter().enumerate() { if r < *x as u64 { return i; } r -= *x as u64; }
        w.len() - 1
    }
}

pub fn mix(a: u64, b: u64) -> u64
{
    let mut r = Rng(a ^ b.wrapping_mul(0xD6E8_FEB8_6659_FD93));
    r.next() ^ r.next().rotate_left(17)
}

/// Op categories (indices into the weight table).
#[derive(Clone, Copy, Debug, PartialEq, Eq)]
#[repr(usize)]
pub enum K
{
    Run, SysEvent, Broadcast, EntityEvent, TriggerRes, Insert, Remove, Despawn, DespawnRec,
    Mutate, SetIfNeq, Noreact, Read, ResMut, ResSetIfNeq, ResNoreact,
    Register, On, Once, Revoke, Kill, Probe, ReturnErr, Direct, Now,
    WrAdd, WrRemove, WrRun, EwrAdd, EwrRemove, CmdSyscall,
    N_,
}
pub const NK: usize = K::N_ as usize;

/// Direct world op categories.
#[derive(Clone, Copy, Debug, PartialEq, Eq)]
#[repr(usize)]
pub enum D
{
    Spawn, Despawn, DespawnRec, Remove, TriggerMutation, Insert, Gc, Poll, Flush, KillInst, SysEvent, Broadcast, EntityEvent,
    TriggerRes, Run, Reparent, Sig, Syscall, Acc, ResAcc, Move,
    N_,
}
pub const ND: usize = D::N_ as usize;

#[derive(Clone)]
pub struct Cfg
{
    pub name: &'static str,
    pub w: [u32; NK],
    /// weights of direct world ops: inside trees (`Direct`/`Now`) and as driver steps
    pub d_tree: [u32; ND],
    pub d_driver: [u32; ND],
    pub slots: (u64, u64),
    pub pre_insts: (u64, u64),
    pub max_created: u64,
    pub runs_per_inst: (u64, u64),
    pub ops_per_script: (u64, u64),
    pub steps: (u64, u64),
    pub ops_per_batch: (u64, u64),
    /// percent of driver steps that are direct ops / updates (rest: batches)
    pub pct_direct_step: u64,
    pub pct_update_step: u64,
    pub pct_excl: u64,
    /// share of actors that queue through `DeferredWorld`
    pub pct_dw: u64,
    pub pct_fallible: u64,
    pub initial_bundle: (u64, u64),
    /// percent chance a trigger / target is drawn from the run's small "hot" set
    pub pct_hot: u64,
    pub pct_self_target: u64,
    pub world_reactors: u64,
    pub entity_world_reactors: u64,
    pub frame_systems: (u64, u64),
    pub modes: [u32; 3],
    pub swarm: bool,
    pub signals: bool,
    pub hierarchy_pct: u64,
    pub syscalls: bool,
    /// extra ops placed in the initial batch: one-off reactors, entity-world-reactor members, world-reactor triggers
    pub setup_once: (u64, u64),
    pub setup_ewr: (u64, u64),
    pub setup_wr: (u64, u64),
    /// extra weight of `despawn(entity)` triggers in bundles
    pub despawn_trig_boost: u64,
    /// reactors added with `App::add_reactor`
    pub app_reactors: (u64, u64),
    /// percent chance that a driver step is preceded by a repeated `app.setup_auto_despawn()`
    pub pct_app_setup: u64,
    /// percent of resource triggers / trigger calls that name the removable resource `T`
    pub pct_res_t: u64,
    /// percent of events whose payload owns a signal clone (profiles with signals)
    pub pct_payload_sig: u64,
    /// exclusive bodies with the nested-collection pattern (profiles with signals)
    pub pct_nested_gc: u64,
    /// driver batches with the revoke-then-register-the-same-trigger pair
    pub pct_rereg: u64,
    /// instances with the double-self-send pattern
    pub pct_double_self: u64,
}

fn wset(pairs: &[(K, u32)]) -> [u32; NK] { let mut w = [0u32; NK]; for (k, v) in pairs { w[*k as usize] = *v; } w }
fn dset(pairs: &[(D, u32)]) -> [u32; ND] { let mut w = [0u32; ND]; for (k, v) in pairs { w[*k as usize] = *v; } w }

pub fn base_cfg() -> Cfg
{
    Cfg {
        name: "generic",
        w: wset(&[
            (K::Run, 10), (K::SysEvent, 12), (K::Broadcast, 10), (K::EntityEvent, 10), (K::TriggerRes, 5), (K::Insert, 5), (K::Remove, 4),
            (K::Despawn, 3), (K::DespawnRec, 1), (K::Mutate, 6), (K::SetIfNeq, 3), (K::Noreact, 1), (K::Read, 1), (K::ResMut, 3), (K::ResSetIfNeq, 2),
            (K::ResNoreact, 1), (K::Register, 4), (K::On, 3), (K::Once, 3), (K::Revoke, 5), (K::Kill, 3), (K::Probe, 5), (K::ReturnErr, 2),
            (K::Direct, 5), (K::Now, 6), (K::WrAdd, 0), (K::WrRemove, 0), (K::WrRun, 0), (K::EwrAdd, 0), (K::EwrRemove, 0), (K::CmdSyscall, 0),
        ]),
        d_tree: dset(&[(D::Despawn, 4), (D::DespawnRec, 1), (D::Remove, 4), (D::TriggerMutation, 5), (D::Insert, 2), (D::Gc, 2), (D::Poll, 2), (D::Flush, 1),
            (D::KillInst, 3), (D::SysEvent, 3), (D::Broadcast, 3), (D::EntityEvent, 3), (D::TriggerRes, 2), (D::Run, 3), (D::Spawn, 2), (D::Acc, 2), (D::ResAcc, 1), (D::Move, 1)]),
        d_driver: dset(&[(D::Spawn, 4), (D::Despawn, 4), (D::DespawnRec, 1), (D::Remove, 4), (D::TriggerMutation, 4), (D::Insert, 3), (D::Gc, 5), (D::Poll, 6),
            (D::Flush, 1), (D::KillInst, 2), (D::SysEvent, 4), (D::Broadcast, 4), (D::EntityEvent, 4), (D::TriggerRes, 3), (D::Run, 4), (D::Acc, 2), (D::ResAcc, 1), (D::Move, 1)]),
        slots: (2, 4),
        pre_insts: (2, 5),
        max_created: 4,
        runs_per_inst: (1, 3),
        ops_per_script: (0, 4),
        steps: (1, 6),
        ops_per_batch: (1, 4),
        pct_direct_step: 35,
        pct_update_step: 5,
        pct_excl: 20,
        pct_dw: 6,
        pct_fallible: 20,
        initial_bundle: (1, 4),
        pct_hot: 70,
        pct_self_target: 35,
        world_reactors: 0,
        entity_world_reactors: 0,
        frame_systems: (0, 0),
        modes: [40, 30, 30],
        swarm: true,
        signals: false,
        hierarchy_pct: 0,
        syscalls: false,
        setup_once: (0, 0),
        setup_ewr: (0, 0),
        setup_wr: (0, 0),
        despawn_trig_boost: 0,
        app_reactors: (0, 1),
        pct_app_setup: 2,
        pct_res_t: 10,
        pct_payload_sig: 12,
        pct_nested_gc: 4,
        pct_rereg: 4,
        pct_double_self: 3,
    }
}

/// Thorough tier: larger programs (more actors, longer scripts, more trees per world).
pub fn scale_up(c: &mut Cfg)
{
    c.pre_insts.1 += 3;
    c.max_created += 3;
    c.runs_per_inst.1 += 1;
    c.ops_per_script.1 += 2;
    c.steps.1 += c.steps.1 / 2 + 2;
    c.ops_per_batch.1 += 2;
    if c.frame_systems.1 > 0 { c.frame_systems.1 += 2; }
}

pub fn profile(name: &str) -> Cfg
{
    let mut c = base_cfg();
    let bump = |c: &mut Cfg, ks: &[(K, u32)]| { for (k, v) in ks { c.w[*k as usize] = *v; } };
    match name
    {
        "C01" =>
        {
            c.name = "C01";
            bump(&mut c, &[(K::Register, 9), (K::On, 5), (K::Revoke, 8), (K::Broadcast, 14), (K::EntityEvent, 14), (K::TriggerRes, 8), (K::Insert, 8), (K::Mutate, 10), (K::Kill, 1), (K::Once, 2)]);
            c.pre_insts = (3, 7);
            c.initial_bundle = (2, 5);
            c.pct_hot = 85;
        }
        "C02" | "C09" | "C13" =>
        {
            c.name = if name == "C02" { "C02" } else if name == "C09" { "C09" } else { "C13" };
            bump(&mut c, &[(K::Run, 18), (K::SysEvent, 18), (K::Broadcast, 10), (K::Kill, 4), (K::ReturnErr, 4), (K::Probe, 3), (K::Register, 2), (K::On, 1), (K::Once, 1)]);
            c.pct_self_target = 55;
            c.pct_double_self = 15;
            c.ops_per_script = (1, 4);
            c.runs_per_inst = (2, 4);
            c.pct_fallible = 30;
            if name == "C13" { c.app_reactors = (0, 3); }
        }
        "C09P" =>
        {
            // polled reactions at tree boundaries: despawn / removal triggers, revoked watchers, despawns as the last commands of a tree
            c.name = "C09P";
            bump(&mut c, &[(K::Despawn, 14), (K::DespawnRec, 2), (K::Remove, 8), (K::Revoke, 10), (K::Register, 6), (K::On, 4), (K::Run, 10), (K::SysEvent, 6), (K::Insert, 4), (K::Kill, 1), (K::Probe, 1)]);
            c.despawn_trig_boost = 10;
            c.d_tree[D::Despawn as usize] = 10;
            c.d_driver[D::Despawn as usize] = 8;
            c.d_driver[D::Spawn as usize] = 6;
            c.modes = [30, 20, 50];
            c.pct_hot = 60;
            c.slots = (3, 4);
            c.initial_bundle = (1, 3);
        }
        "C03" | "C12" =>
        {
            c.name = if name == "C03" { "C03" } else { "C12" };
            bump(&mut c, &[(K::Run, 8), (K::SysEvent, 20), (K::Broadcast, 16), (K::EntityEvent, 16), (K::Mutate, 10), (K::Insert, 6), (K::TriggerRes, 4), (K::Kill, 2), (K::Remove, 4), (K::Despawn, 2)]);
            c.pre_insts = (2, 3);
            c.pct_self_target = 70;
            c.pct_double_self = 10;
            c.ops_per_script = (2, 5);
            c.runs_per_inst = (2, 4);
            c.initial_bundle = (3, 6);
            c.pct_hot = 90;
        }
        "C04" =>
        {
            c.name = "C04";
            bump(&mut c, &[(K::Probe, 25), (K::Run, 14), (K::SysEvent, 14), (K::ReturnErr, 5)]);
            c.pct_excl = 35;
            c.pct_fallible = 30;
            c.pct_self_target = 50;
        }
        "C05" =>
        {
            c.name = "C05";
            bump(&mut c, &[(K::SysEvent, 16), (K::Broadcast, 18), (K::EntityEvent, 18), (K::Revoke, 9), (K::Kill, 8), (K::Despawn, 6), (K::ReturnErr, 4), (K::Run, 6)]);
            c.pct_hot = 85;
            c.pct_self_target = 40;
        }
        "C06" =>
        {
            c.name = "C06";
            bump(&mut c, &[(K::Revoke, 18), (K::Register, 8), (K::On, 6), (K::Once, 4), (K::Broadcast, 12), (K::EntityEvent, 12), (K::TriggerRes, 8), (K::Mutate, 8), (K::Insert, 6)]);
            c.modes = [20, 15, 65];
            c.pre_insts = (3, 7);
            c.initial_bundle = (2, 5);
            c.pct_hot = 85;
            c.world_reactors = 1;
            bump(&mut c, &[(K::WrAdd, 5), (K::WrRemove, 5)]);
            c.despawn_trig_boost = 3;
            c.pct_rereg = 25;
        }
        "C07" =>
        {
            c.name = "C07";
            bump(&mut c, &[(K::Revoke, 12), (K::Register, 8), (K::On, 8), (K::Once, 4), (K::Despawn, 8), (K::Kill, 2), (K::Broadcast, 8), (K::EntityEvent, 8)]);
            c.modes = [20, 40, 40];
            c.d_driver[D::Gc as usize] = 14;
            c.despawn_trig_boost = 4;
            c.pct_app_setup = 6;
            c.d_driver[D::Despawn as usize] = 8;
            c.d_driver[D::Spawn as usize] = 6;
            c.pct_direct_step = 55;
            c.initial_bundle = (0, 4);
            c.hierarchy_pct = 30;
        }
        "C08" | "C08F" =>
        {
            c.name = if name == "C08" { "C08" } else { "C08F" };
            bump(&mut c, &[(K::Remove, 14), (K::Despawn, 10), (K::DespawnRec, 3), (K::Insert, 12), (K::Direct, 12), (K::Now, 12), (K::Register, 6), (K::On, 4), (K::Revoke, 4)]);
            c.d_tree = dset(&[(D::Despawn, 8), (D::DespawnRec, 2), (D::Remove, 10), (D::Insert, 6), (D::Poll, 3), (D::Gc, 2), (D::Spawn, 4), (D::TriggerMutation, 2), (D::Run, 3)]);
            c.d_driver = dset(&[(D::Spawn, 8), (D::Despawn, 8), (D::DespawnRec, 3), (D::Remove, 12), (D::Insert, 8), (D::Gc, 4), (D::Poll, 10), (D::Run, 5), (D::Broadcast, 3), (D::Reparent, 3)]);
            c.pct_direct_step = 60;
            c.despawn_trig_boost = 3;
            c.pct_rereg = 12;
            c.hierarchy_pct = 40;
            c.steps = (3, 10);
            if name == "C08F" { c.frame_systems = (2, 5); c.pct_update_step = 45; c.pct_direct_step = 30; c.steps = (3, 9); }
            else { c.signals = true; c.d_driver[D::Sig as usize] = 8; c.d_tree[D::Sig as usize] = 5; }
        }
        "C10" =>
        {
            c.name = "C10";
            c.signals = true;
            c.d_tree[D::Sig as usize] = 14;
            bump(&mut c, &[(K::Direct, 10), (K::Now, 8)]);
            c.pct_app_setup = 8;
            c.hierarchy_pct = 70;
            c.d_driver = dset(&[(D::Sig, 40), (D::Gc, 14), (D::Despawn, 5), (D::DespawnRec, 3), (D::Reparent, 8), (D::Spawn, 4), (D::Run, 3), (D::Broadcast, 3), (D::Poll, 3)]);
            c.pct_direct_step = 85;
            c.pct_update_step = 8;
            c.steps = (4, 16);
            c.slots = (3, 4);
        }
        "C10T" =>
        {
            // signals released and collections requested *inside* reaction trees: by commands that exclusive bodies and
            // `DeferredWorld` systems leave on the world's queue (applied by whatever flushes next -- also the flush inside the
            // despawn an enclosing collection is performing), by payloads, by reactors that die mid-tree
            c.name = "C10T";
            c.signals = true;
            c.d_tree[D::Sig as usize] = 22;
            c.d_tree[D::Gc as usize] = 12;
            c.d_tree[D::Run as usize] = 6;
            bump(&mut c, &[(K::Direct, 16), (K::Now, 10), (K::Run, 6), (K::SysEvent, 4)]);
            c.pct_dw = 25;
            c.pct_excl = 35;
            c.pct_payload_sig = 30;
            c.pct_nested_gc = 30;
            c.hierarchy_pct = 40;
            c.d_driver = dset(&[(D::Sig, 30), (D::Gc, 4), (D::Run, 14), (D::SysEvent, 6), (D::Broadcast, 5), (D::Spawn, 3), (D::Reparent, 3)]);
            c.pct_direct_step = 70;
            c.steps = (4, 12);
            c.slots = (3, 4);
        }
        "C11" | "C18" =>
        {
            c.name = if name == "C11" { "C11" } else { "C18" };
            bump(&mut c, &[(K::Kill, 9), (K::Despawn, 7), (K::Revoke, 7), (K::ReturnErr, 4), (K::Direct, 8), (K::Now, 8)]);
            c.steps = (2, 8);
            c.pct_self_target = 45;
            if name == "C11" { c.d_tree[D::Sig as usize] = 6; c.pct_app_setup = 5; c.signals = true; c.d_driver[D::Sig as usize] = 10; c.d_driver[D::Gc as usize] = 8; c.hierarchy_pct = 25; c.modes = [25, 45, 30]; }
        }
        "C14" =>
        {
            c.name = "C14";
            bump(&mut c, &[(K::Mutate, 14), (K::SetIfNeq, 16), (K::Noreact, 8), (K::Read, 6), (K::ResMut, 10), (K::ResSetIfNeq, 12), (K::ResNoreact, 6), (K::Insert, 14), (K::Despawn, 8), (K::TriggerRes, 6), (K::Remove, 4)]);
            c.d_tree[D::TriggerMutation as usize] = 10;
            c.d_tree[D::Despawn as usize] = 8;
            c.d_driver[D::TriggerMutation as usize] = 8;
            c.d_driver[D::Insert as usize] = 8;
            for d in [D::Acc, D::ResAcc, D::Move] { let w = if d == D::Acc { 24 } else if d == D::ResAcc { 10 } else { 5 }; c.d_tree[d as usize] = w; c.d_driver[d as usize] = w; }
            bump(&mut c, &[(K::Direct, 14), (K::Now, 10)]);
            c.pct_res_t = 30;
            c.pct_excl = 15;
            c.pct_hot = 85;
        }
        "C15" =>
        {
            c.name = "C15";
            bump(&mut c, &[(K::Once, 16), (K::Revoke, 8), (K::Broadcast, 14), (K::EntityEvent, 10), (K::TriggerRes, 8), (K::Mutate, 8), (K::Despawn, 5), (K::Remove, 5), (K::Insert, 5)]);
            c.max_created = 8;
            c.pct_hot = 90;
            c.setup_once = (1, 3);
            c.despawn_trig_boost = 6;
            c.w[K::Despawn as usize] = 12;
            c.d_driver[D::Despawn as usize] = 10;
            c.d_driver[D::Poll as usize] = 10;
            c.d_driver[D::Spawn as usize] = 6;
            c.d_driver[D::Gc as usize] = 10;
        }
        "C16" =>
        {
            c.name = "C16";
            c.world_reactors = 2;
            c.entity_world_reactors = 2;
            bump(&mut c, &[(K::WrAdd, 10), (K::WrRemove, 8), (K::WrRun, 5), (K::EwrAdd, 12), (K::EwrRemove, 10), (K::Mutate, 12), (K::EntityEvent, 14), (K::Insert, 8), (K::Remove, 6), (K::Despawn, 5), (K::Broadcast, 6), (K::TriggerRes, 4)]);
            c.d_driver[D::Spawn as usize] = 8;
            c.d_driver[D::Despawn as usize] = 6;
            c.pct_hot = 85;
            c.setup_ewr = (1, 4);
            c.setup_wr = (1, 3);
            c.pre_insts = (1, 3);
        }
        "C17" =>
        {
            c.name = "C17";
            c.syscalls = true;
            bump(&mut c, &[(K::CmdSyscall, 14), (K::Direct, 10), (K::Now, 10)]);
            c.d_tree[D::Syscall as usize] = 30;
            c.d_driver[D::Syscall as usize] = 40;
            c.pct_direct_step = 60;
        }
        _ => {}
    }
    c
}

struct G<'a>
{
    r: &'a mut Rng,
    c: Cfg,
    nslots: u8,
    insts: Vec<InstDef>,
    /// instances ordinary ops may target
    targets: Vec<Inst>,
    used: HashSet<(Inst, Trig)>,
    hot_trigs: Vec<Trig>,
    hot_slot: Slot,
    created_budget: u64,
    /// pre-spawned instances that only ever get persistent registrations
    persistent_class: Vec<Inst>,
    /// exclusive bodies of this program do not flush before direct trigger calls
    noflush: bool,
    wr: Vec<u8>,
    ewr: Vec<u8>,
}

impl<'a> G<'a>
{
    fn slot(&mut self) -> Slot { if self.r.chance(self.c.pct_hot) { self.hot_slot } else { self.r.below(self.nslots as u64) as Slot } }
    fn p(&mut self) -> P { if self.r.chance(65) { P::X } else { P::Y } }
    fn comp(&mut self) -> C { if self.r.chance(65) { C::A } else { C::B } }
    fn res(&mut self) -> R { if self.r.chance(65) { R::R } else { R::S } }
    /// for triggers and explicit trigger calls: the removable resource takes part too
    fn res3(&mut self) -> R { if self.r.chance(self.c.pct_res_t) { R::T } else { self.res() } }
    /// low two bits: the value that equality looks at; the rest: a tag equality ignores
    fn val(&mut self) -> u8 { (self.r.below(3) + 4 * self.r.below(3)) as u8 }

    fn any_trig(&mut self) -> Trig
    {
        if !self.hot_trigs.is_empty() && self.r.chance(self.c.pct_hot) { return *self.r.pick(&self.hot_trigs.clone()); }
        let s = self.slot();
        let boost = self.c.despawn_trig_boost;
        match self.r.below(11 + boost)
        {
            0 => Trig::Broadcast(self.p()),
            1 => Trig::AnyEntityEvent(self.p()),
            2 => Trig::EntityEvent(s, self.p()),
            3 => Trig::Resource(self.res3()),
            4 => Trig::Insertion(self.comp()),
            5 => Trig::Mutation(self.comp()),
            6 => Trig::Removal(self.comp()),
            7 => Trig::EntityInsertion(s, self.comp()),
            8 => Trig::EntityMutation(s, self.comp()),
            9 => Trig::EntityRemoval(s, self.comp()),
            _ => Trig::Despawn(s),
        }
    }

    /// A bundle of triggers none of which has been used for `inst` before (no duplicate registrations).
    fn bundle(&mut self, inst: Inst, lo: u64, hi: u64) -> Vec<Trig>
    {
        let n = self.r.range(lo, hi);
        let mut v = Vec::new();
        let mut tries = 0;
        while (v.len() as u64) < n && tries < 40
        {
            tries += 1;
            let mut t = self.any_trig();
            // a custom-callback system cannot run its cleanup: only triggers without event data
            if self.no_event(inst) { t = Trig::Resource(self.res3()); }
            if self.used.insert((inst, t)) { v.push(t); }
        }
        // now and then one bundle names the same trigger twice (two registrations of one reactor through one token)
        if !v.is_empty() && v.len() < 6 && self.r.chance(7) { let t = *self.r.pick(&v.clone()); v.push(t); }
        v
    }

    /// "Revoke one reactor's registrations, register another reactor for one of the same triggers" -- in one batch, before any
    /// poll or trigger can come between (whatever bookkeeping the revocation retires is needed again at once).
    fn rereg_pair(&mut self) -> Option<(Op, Op)>
    {
        if self.persistent_class.is_empty() || self.used.is_empty() { return None; }
        let mut pairs: Vec<(Inst, Trig)> = self.used.iter().copied().collect();
        pairs.sort();
        let (i, t) = *self.r.pick(&pairs);
        let j = *self.r.pick(&self.persistent_class.clone());
        if j == i || self.no_event(j) || !self.used.insert((j, t)) { return None; }
        Some((Op::Revoke(i), Op::Register { inst: j, mode: Mode::Persistent, trigs: vec![t] }))
    }

    fn no_event(&self, inst: Inst) -> bool { self.insts.get(inst as usize).map(|d| d.flavour == Flavour::CustomCb).unwrap_or(false) }

    fn mode(&mut self) -> Mode { match self.r.weighted(&self.c.modes.clone()) { 0 => Mode::Persistent, 1 => Mode::Cleanup, _ => Mode::Revokable } }

    fn target(&mut self, me: Option<Inst>) -> Inst
    {
        if let Some(m) = me { if self.targets.contains(&m) && self.r.chance(self.c.pct_self_target) { return m; } }
        if self.targets.is_empty() { return 0; }
        *self.r.pick(&self.targets.clone())
    }

    fn flavour(&mut self) -> Flavour
    {
        if self.r.chance(self.c.pct_excl) { if self.r.chance(30) { Flavour::ExclusiveWarn } else { Flavour::Exclusive } }
        else if self.r.chance(self.c.pct_fallible) { if self.r.chance(75) { Flavour::FallibleDrop } else { Flavour::FallibleWarn } }
        else if self.r.chance(12) { Flavour::InParamSet }
        else if self.r.chance(self.c.pct_dw) { Flavour::DeferredW }
        else { Flavour::Plain }
    }

    fn new_inst(&mut self, origin: Origin, depth: u32) -> Inst
    {
        let flavour = match origin { Origin::Once => { match self.r.below(10) { 0 | 1 => Flavour::FallibleWarn, 2 => Flavour::FallibleDrop, 3 => Flavour::Exclusive, _ => Flavour::Plain } } Origin::World(_) | Origin::EntityWorld(_) => Flavour::Plain, _ => { let f = self.flavour(); if matches!(f, Flavour::FallibleWarn | Flavour::ExclusiveWarn) && origin == Origin::On { Flavour::Plain } else { f } } };
        let id = self.insts.len() as Inst;
        self.insts.push(InstDef { flavour, origin, scripts: Vec::new(), rc: false });
        let scripts = self.scripts(Some(id), flavour, depth);
        self.insts[id as usize].scripts = scripts;
        id
    }

    fn scripts(&mut self, me: Option<Inst>, flavour: Flavour, depth: u32) -> Vec<Vec<Op>>
    {
        let runs = self.r.range(self.c.runs_per_inst.0, self.c.runs_per_inst.1);
        let mut v = Vec::new();
        for _ in 0..runs
        {
            let n = self.r.range(self.c.ops_per_script.0, self.c.ops_per_script.1);
            let mut ops = Vec::new();
            for _ in 0..n { if let Some(op) = self.op(me, flavour, depth) { ops.push(op); } }
            // an exclusive body that leaves a registration or a revocation on the world's queue and then triggers the very thing
            // directly (programs that do not flush before direct trigger calls)
            if self.noflush && matches!(flavour, Flavour::Exclusive | Flavour::ExclusiveWarn) && self.r.chance(45)
            {
                let s = self.slot();
                let (t, w) = match self.r.below(5)
                {
                    0 | 1 => { let p = self.p(); (Trig::EntityEvent(s, p), WOp::EntityEvent(s, p)) }
                    2 => { let c = self.comp(); (Trig::EntityMutation(s, c), WOp::TriggerMutation(s, c)) }
                    3 => { let p = self.p(); (Trig::Broadcast(p), WOp::Broadcast(p)) }
                    _ => { let r = self.res(); (Trig::Resource(r), WOp::TriggerRes(r)) }
                };
                let first = if !self.persistent_class.is_empty() && self.r.chance(70)
                {
                    let inst = *self.r.pick(&self.persistent_class.clone());
                    if !self.no_event(inst) && self.used.insert((inst, t)) { Some(Op::Register { inst, mode: Mode::Persistent, trigs: vec![t] }) } else { None }
                }
                else { let n = self.insts.len() as u64; Some(Op::Revoke(self.r.below(n) as Inst)) };
                if let Some(f) = first { let at = self.r.below(ops.len() as u64 + 1) as usize; ops.insert(at, Op::Now(w)); ops.insert(at, f); }
            }
            // an exclusive body that drops a signal, leaves "drop another signal; collect" on the world's queue and then starts a
            // system command directly: the runner's collection takes the first entity and the flush inside its despawn applies
            // the queued pair -- a collection nested inside a collection
            if self.c.signals && matches!(flavour, Flavour::Exclusive | Flavour::ExclusiveWarn) && self.r.chance(self.c.pct_nested_gc)
            {
                let k1 = self.r.below(4) as u8;
                let k2 = (k1 + 1 + self.r.below(3) as u8) % 4;
                let t = self.target(me);
                let at = self.r.below(ops.len() as u64 + 1) as usize;
                let pat = [Op::Now(WOp::SigDrop(k1)), Op::Direct(WOp::SigDrop(k2)), Op::Direct(WOp::Gc), Op::Now(WOp::Run(t))];
                for (i, o) in pat.into_iter().enumerate() { ops.insert(at + i, o); }
            }
            v.push(ops);
        }
        // a system that sends itself two events while it runs, and whose first replay sends itself another one: the new one runs
        // right after that replay, ahead of the older pending one (C09), each with its own data (C03, C12)
        if let Some(m) = me
        {
            if !self.no_event(m) && self.targets.contains(&m) && self.r.chance(self.c.pct_double_self) && v.len() >= 2
            {
                for _ in 0..2 { let p = self.p(); let at = self.r.below(v[0].len() as u64 + 1) as usize; v[0].insert(at, Op::SysEvent(m, p)); }
                let p = self.p();
                let at = self.r.below(v[1].len() as u64 + 1) as usize;
                v[1].insert(at, if self.r.chance(70) { Op::SysEvent(m, p) } else { Op::Run(m) });
            }
        }
        v.push(Vec::new());
        v
    }

    fn wop(&mut self, w: &[u32; ND], me: Option<Inst>, driver: bool) -> Option<WOp>
    {
        let k = self.r.weighted(w);
        let s = self.slot();
        Some(match k
        {
            x if x == D::Spawn as usize => { let a = self.r.chance(70).then(|| self.val()); let b = self.r.chance(40).then(|| self.val()); WOp::Spawn(self.r.below(self.nslots as u64) as Slot, a, b) }
            x if x == D::Despawn as usize => WOp::Despawn(s),
            x if x == D::DespawnRec as usize => WOp::DespawnRec(s),
            x if x == D::Remove as usize => WOp::Remove(s, self.comp()),
            x if x == D::TriggerMutation as usize => WOp::TriggerMutation(s, self.comp()),
            x if x == D::Insert as usize => WOp::Insert(s, self.comp(), self.val()),
            x if x == D::Gc as usize => { if driver && self.r.chance(12) { if self.r.chance(40) { WOp::ReactorBulk(self.r.range(1, 5) as u16, 2 + self.r.below(2) as u8) } else { WOp::ReactorBulk(self.r.range(30, 140) as u16, self.r.below(2) as u8) } } else { WOp::Gc } }
            x if x == D::Poll as usize => WOp::Poll,
            x if x == D::Flush as usize => WOp::Flush,
            x if x == D::KillInst as usize => { let t = self.target(me); if self.insts.get(t as usize).map(|d| d.rc).unwrap_or(false) && self.r.chance(65) { WOp::DropInstSig(t) } else { WOp::KillInst(t) } }
            x if x == D::SysEvent as usize => { let t = self.target(me); if self.no_event(t) { WOp::Run(t) } else { WOp::SysEvent(t, self.p()) } }
            x if x == D::Broadcast as usize => WOp::Broadcast(self.p()),
            x if x == D::EntityEvent as usize => WOp::EntityEvent(s, self.p()),
            x if x == D::TriggerRes as usize => WOp::TriggerRes(self.res3()),
            x if x == D::Run as usize => WOp::Run(self.target(me)),
            x if x == D::Reparent as usize =>
            {
                if self.nslots < 2 { return None; }
                let child = self.r.range(1, self.nslots as u64 - 1) as Slot;
                let parent = self.r.below(child as u64) as Slot;
                WOp::Reparent(child, parent)
            }
            x if x == D::Sig as usize =>
            {
                // anywhere: inside trees, batches and exclusive bodies (collections are observed, so no placement rule is needed)
                let k = self.r.below(4) as u8;
                if driver && self.r.chance(12) { return Some(WOp::RcScratch(self.r.below(4) as u8, self.r.chance(40))); }
                match self.r.below(10) { 0 | 1 => WOp::SigPrepare(k, s), 2 | 3 => WOp::SigClone(k), 4 => WOp::SigMoveInto(k, s), 5 => WOp::SigDropUnwind(k), _ => WOp::SigDrop(k) }
            }
            x if x == D::Acc as usize =>
            {
                const KINDS: [AccKind; 10] = [AccKind::QGetMut, AccKind::QSetIfNeq, AccKind::QNoreact, AccKind::QRead, AccKind::RoRead, AccKind::SingleMut, AccKind::SingleNoreact, AccKind::SingleSetIfNeq, AccKind::SingleRead, AccKind::RoSingle];
                // the reacting ones twice as often
                let k = match self.r.below(14) { 10 | 11 => AccKind::QGetMut, 12 => AccKind::QSetIfNeq, 13 => AccKind::SingleMut, i => KINDS[i as usize] };
                WOp::Acc(k, s, self.comp(), self.val())
            }
            x if x == D::ResAcc as usize =>
            {
                const KINDS: [ResAccKind; 8] = [ResAccKind::WorldNoreact, ResAccKind::WorldGetNoreact, ResAccKind::WorldRead, ResAccKind::ParamRead, ResAccKind::WorldInsert, ResAccKind::CmdInsert, ResAccKind::Init, ResAccKind::GetOrInsertWith];
                if self.r.chance(self.c.pct_res_t * 2)
                {
                    const TK: [ResAccKind; 10] = [ResAccKind::WorldRemove, ResAccKind::CmdRemove, ResAccKind::WorldRemove, ResAccKind::WorldInsert, ResAccKind::CmdInsert, ResAccKind::Init, ResAccKind::GetOrInsertWith, ResAccKind::WorldRead, ResAccKind::ParamRead, ResAccKind::WorldNoreact];
                    return Some(WOp::ResAcc(TK[self.r.below(10) as usize], R::T, self.val()));
                }
                WOp::ResAcc(KINDS[self.r.below(8) as usize], self.res(), self.val())
            }
            x if x == D::Move as usize =>
            {
                if self.nslots < 2 { return None; }
                let to = (s + 1 + self.r.below(self.nslots as u64 - 1) as Slot) % self.nslots;
                WOp::Move(s, to, self.comp())
            }
            x if x == D::Syscall as usize => { let o = crate::sysfam::gen_syscall(self.r)?; if !driver && matches!(o, WOp::DropSysRc(_)) { return None; } o }
            _ => return None,
        })
    }

    fn op(&mut self, me: Option<Inst>, flavour: Flavour, depth: u32) -> Option<Op>
    {
        let mut w = self.c.w;
        let excl = matches!(flavour, Flavour::Exclusive | Flavour::ExclusiveWarn);
        if excl
        {
            for k in [K::Mutate, K::SetIfNeq, K::Noreact, K::Read, K::ResMut, K::ResSetIfNeq, K::ResNoreact] { w[k as usize] = 0; }
        }
        else { w[K::Now as usize] = 0; }
        if flavour == Flavour::DeferredW { for k in [K::Mutate, K::SetIfNeq, K::Noreact, K::Read, K::ResMut, K::ResSetIfNeq, K::ResNoreact] { w[k as usize] = 0; } }
        if !matches!(flavour, Flavour::FallibleDrop | Flavour::FallibleWarn | Flavour::ExclusiveWarn) || me.is_none() { w[K::ReturnErr as usize] = 0; }
        if depth >= 2 || self.created_budget == 0 { w[K::On as usize] = 0; w[K::Once as usize] = 0; }
        if self.wr.is_empty() { w[K::WrAdd as usize] = 0; w[K::WrRemove as usize] = 0; w[K::WrRun as usize] = 0; }
        if self.ewr.is_empty() { w[K::EwrAdd as usize] = 0; w[K::EwrRemove as usize] = 0; }
        if !self.c.syscalls { w[K::CmdSyscall as usize] = 0; }
        let k = self.r.weighted(&w);
        let s = self.slot();
        Some(match k
        {
            x if x == K::Run as usize => Op::Run(self.target(me)),
            x if x == K::SysEvent as usize => { let t = self.target(me); if self.no_event(t) { Op::Run(t) } else if self.c.signals && self.r.chance(self.c.pct_payload_sig) { Op::SysEventSig(t, self.p(), self.r.below(4) as u8) } else { Op::SysEvent(t, self.p()) } }
            x if x == K::Broadcast as usize => { if self.c.signals && self.r.chance(self.c.pct_payload_sig) { Op::BroadcastSig(self.p(), self.r.below(4) as u8) } else { Op::Broadcast(self.p()) } }
            x if x == K::EntityEvent as usize => { if self.c.signals && self.r.chance(self.c.pct_payload_sig) { Op::EntityEventSig(s, self.p(), self.r.below(4) as u8) } else { Op::EntityEvent(s, self.p()) } }
            x if x == K::TriggerRes as usize => Op::TriggerRes(self.res3()),
            x if x == K::Insert as usize => Op::Insert(s, self.comp(), self.val()),
            x if x == K::Remove as usize => Op::Remove(s, self.comp()),
            x if x == K::Despawn as usize => Op::Despawn(s),
            x if x == K::DespawnRec as usize => Op::DespawnRec(s),
            x if x == K::Mutate as usize => Op::Mutate(s, self.comp(), self.val()),
            x if x == K::SetIfNeq as usize => Op::SetIfNeq(s, self.comp(), self.val()),
            x if x == K::Noreact as usize => Op::Noreact(s, self.comp(), self.val()),
            x if x == K::Read as usize => Op::Read(s, self.comp()),
            x if x == K::ResMut as usize => Op::ResMut(self.res(), self.val()),
            x if x == K::ResSetIfNeq as usize => Op::ResSetIfNeq(self.res(), self.val()),
            x if x == K::ResNoreact as usize => Op::ResNoreact(self.res(), self.val()),
            x if x == K::Register as usize =>
            {
                // extra triggers for a pre-spawned instance; ref-counted modes at most once per instance
                if self.persistent_class.is_empty() { return None; }
                let inst = *self.r.pick(&self.persistent_class.clone());
                let trigs = self.bundle(inst, 1, 3);
                Op::Register { inst, mode: Mode::Persistent, trigs }
            }
            x if x == K::On as usize =>
            {
                self.created_budget -= 1;
                let inst = self.new_inst(Origin::On, depth + 1);
                let mode = self.mode();
                if mode != Mode::Cleanup { self.targets.push(inst); }
                let trigs = self.bundle(inst, self.c.initial_bundle.0.min(1), self.c.initial_bundle.1.min(4));
                Op::On { inst, mode, trigs }
            }
            x if x == K::Once as usize =>
            {
                self.created_budget -= 1;
                let inst = self.new_inst(Origin::Once, depth + 1);
                let trigs = self.bundle(inst, 0, 4);
                Op::Once { inst, trigs }
            }
            x if x == K::Revoke as usize =>
            {
                let n = self.insts.len() as u64;
                Op::Revoke(self.r.below(n) as Inst)
            }
            x if x == K::Kill as usize => Op::KillInst(self.target(me)),
            x if x == K::Probe as usize => Op::Probe,
            x if x == K::ReturnErr as usize => Op::ReturnErr,
            x if x == K::Direct as usize => Op::Direct(self.wop(&self.c.d_tree.clone(), me, false)?),
            x if x == K::Now as usize => Op::Now(self.wop(&self.c.d_tree.clone(), me, false)?),
            x if x == K::WrAdd as usize => { let k = *self.r.pick(&self.wr.clone()); let n = self.r.range(1, 3); let t: Vec<Trig> = (0..n).map(|_| self.any_trig()).collect(); Op::WrAdd(k, dedup(t)) }
            x if x == K::WrRemove as usize => { let k = *self.r.pick(&self.wr.clone()); let n = self.r.range(1, 3); let t: Vec<Trig> = (0..n).map(|_| self.any_trig()).collect(); Op::WrRemove(k, dedup(t)) }
            x if x == K::WrRun as usize => Op::WrRun(*self.r.pick(&self.wr.clone())),
            x if x == K::EwrAdd as usize => { let k = *self.r.pick(&self.ewr.clone()); let d = self.r.range(1, 9) as u32; if self.r.chance(35) { Op::EwrAddEc(k, s, d) } else { Op::EwrAdd(k, s, d) } }
            x if x == K::EwrRemove as usize => { let k = *self.r.pick(&self.ewr.clone()); let full = if k == 0 { 0b11 } else { 0b111 }; let mask = if self.r.chance(40) { full } else { self.r.range(1, full as u64) as u8 }; if self.r.chance(35) && self.nslots >= 2 { let s2 = (s + 1 + self.r.below(self.nslots as u64 - 1) as Slot) % self.nslots; let m2 = if self.r.chance(50) { full } else { self.r.range(1, full as u64) as u8 }; let mut parts = vec![(s, mask), (s2, m2)]; if self.r.chance(50) { parts.reverse(); } Op::EwrRemoveMany(k, parts) } else { Op::EwrRemove(k, s, mask) } }
            x if x == K::CmdSyscall as usize => crate::sysfam::gen_cmd_syscall(self.r)?,
            _ => return None,
        })
    }
}

fn dedup(mut v: Vec<Trig>) -> Vec<Trig> { v.sort(); v.dedup(); v }

pub fn generate(seed: u64, base: &Cfg) -> Program
{
    let mut r = Rng::new(seed);
    let mut c = base.clone();
    if c.swarm
    {
        // swarm: knock out or boost a random subset of op kinds, vary sizes
        for i in 0..NK { match r.below(10) { 0 | 1 => c.w[i] = 0, 2 => c.w[i] *= 3, _ => {} } }
        for i in 0..ND { match r.below(10) { 0 => c.d_tree[i] = 0, 1 => c.d_driver[i] = 0, 2 => { c.d_tree[i] *= 3; c.d_driver[i] *= 3; } _ => {} } }
        if r.chance(15) { c.pct_excl = 0; }
        if r.chance(15) { c.pct_fallible = 0; }
        if r.chance(20) { c.pct_self_target = 80; }
        if r.chance(10) { c.initial_bundle.1 += 3; c.pre_insts.1 += 3; }
        // now and then any profile runs inside an App with frame systems and updates
        if c.frame_systems.1 == 0 && !c.signals && r.chance(8) { c.frame_systems = (1, 3); c.pct_update_step = c.pct_update_step.max(25); }
    }
    let nslots = r.range(c.slots.0, c.slots.1) as u8;
    let mut prog = Program::default();
    for _ in 0..nslots { let a = r.chance(80).then(|| r.below(3) as u8); let b = r.chance(45).then(|| r.below(3) as u8); prog.slots.push((a, b)); }
    let hot_slot = r.below(nslots as u64) as Slot;
    let (wrn, ewrn) = (c.world_reactors, c.entity_world_reactors);
    let created = c.max_created;
    let mut g = G { r: &mut r, c, nslots, insts: Vec::new(), targets: Vec::new(), used: HashSet::new(), hot_trigs: Vec::new(), hot_slot,
        created_budget: created, persistent_class: Vec::new(), wr: Vec::new(), ewr: Vec::new(), noflush: false };
    g.noflush = g.r.chance(35);
    // hot triggers shared by many reactors
    let nhot = g.r.range(2, 5);
    g.c.pct_hot = 0;
    for _ in 0..nhot { let t = g.any_trig(); g.hot_trigs.push(t); }
    g.c.pct_hot = base.pct_hot;
    // pre-spawned actors: ids first so scripts can target all of them
    let npre = g.r.range(g.c.pre_insts.0, g.c.pre_insts.1) as usize;
    for _ in 0..npre { let mut f = g.flavour(); if f == Flavour::Plain && g.r.chance(8) { f = Flavour::CustomCb; } let rc = f != Flavour::CustomCb && g.r.chance(12); g.insts.push(InstDef { flavour: f, origin: Origin::Pre, scripts: Vec::new(), rc }); }
    g.targets = (0..npre as u8).collect();
    let napp = g.r.range(g.c.app_reactors.0, g.c.app_reactors.1) as usize;
    let app_first = g.insts.len();
    for _ in 0..napp { let f = if g.r.chance(25) { Flavour::FallibleDrop } else { Flavour::Plain }; g.insts.push(InstDef { flavour: f, origin: Origin::App, scripts: Vec::new(), rc: false }); }
    for k in 0..wrn { g.insts.push(InstDef { flavour: Flavour::Plain, origin: Origin::World(k as u8), scripts: Vec::new(), rc: false }); g.wr.push(k as u8); }
    for k in 0..ewrn { g.insts.push(InstDef { flavour: Flavour::Plain, origin: Origin::EntityWorld(k as u8), scripts: Vec::new(), rc: false }); g.ewr.push(k as u8); }
    let fixed = g.insts.len();
    // registration class of the pre-spawned actors is decided before scripts are generated
    let modes0: Vec<Mode> = (0..npre).map(|_| g.mode()).collect();
    for (i, m) in modes0.iter().enumerate() { if *m == Mode::Persistent { g.persistent_class.push(i as Inst); } }
    for i in 0..fixed
    {
        let f = g.insts[i].flavour;
        let s = g.scripts(Some(i as Inst), f, 0);
        g.insts[i].scripts = s;
    }
    for i in app_first..app_first + napp { let (lo, hi) = g.c.initial_bundle; let t = g.bundle(i as Inst, lo.max(1), hi.max(1)); prog.app_reactors.push((i as Inst, t)); }
    // step 0: initial registrations
    let mut setup = Vec::new();
    for i in 0..npre
    {
        let inst = i as Inst;
        let mode = modes0[i];
        let (lo, hi) = g.c.initial_bundle;
        let trigs = g.bundle(inst, lo, hi);
        setup.push(Op::Register { inst, mode, trigs });
    }
    let n = g.r.range(g.c.setup_once.0, g.c.setup_once.1);
    for _ in 0..n
    {
        if g.created_budget == 0 { break; }
        g.created_budget -= 1;
        let inst = g.new_inst(Origin::Once, 1);
        let trigs = g.bundle(inst, 0, 4);
        setup.push(Op::Once { inst, trigs });
    }
    let n = g.r.range(g.c.setup_wr.0, g.c.setup_wr.1);
    for _ in 0..n { if g.wr.is_empty() { break; } let k = *g.r.pick(&g.wr.clone()); let m = g.r.range(1, 3); let t: Vec<Trig> = (0..m).map(|_| g.any_trig()).collect(); setup.push(Op::WrAdd(k, dedup(t))); }
    let n = g.r.range(g.c.setup_ewr.0, g.c.setup_ewr.1);
    for _ in 0..n { if g.ewr.is_empty() { break; } let k = *g.r.pick(&g.ewr.clone()); let s = g.slot(); let d = g.r.range(1, 9) as u32; setup.push(Op::EwrAdd(k, s, d)); }
    let mut steps = vec![Step::Batch(setup)];
    // frame systems
    let nframes = g.r.range(g.c.frame_systems.0, g.c.frame_systems.1);
    let mut fs: Vec<FrameSys> = Vec::new();
    for _ in 0..nframes
    {
        let place = g.r.below(4) as u8;
        let nf = g.r.range(1, 3);
        let mut frames = Vec::new();
        for _ in 0..nf
        {
            let n = g.r.range(0, 3);
            let mut ops = Vec::new();
            for _ in 0..n { if let Some(op) = g.op(None, Flavour::Plain, 1) { ops.push(op); } }
            frames.push(ops);
        }
        frames.push(Vec::new());
        fs.push(FrameSys { place, frames });
    }
    fs.sort_by_key(|f| f.place);
    // hierarchy
    if g.r.chance(g.c.hierarchy_pct)
    {
        for child in 1..nslots { if g.r.chance(60) { let parent = g.r.below(child as u64) as Slot; steps.push(Step::Direct(WOp::Reparent(child, parent))); } }
    }
    // driver steps
    let nsteps = g.r.range(g.c.steps.0, g.c.steps.1);
    let mut sig_count = [0u32; 4];
    let mut sig_used = [false; 4];
    for _ in 0..nsteps
    {
        let roll = g.r.below(100);
        if roll < g.c.pct_update_step { steps.push(Step::Update); continue; }
        if g.r.chance(g.c.pct_app_setup) { steps.push(Step::AppSetup); }
        if roll < g.c.pct_update_step + g.c.pct_direct_step
        {
            let w = g.c.d_driver;
            let k = g.r.weighted(&w);
            if k == D::Sig as usize && g.c.signals
            {
                // now and then a bulk release: many signals reach zero between two collections (sizes straddle powers of two)
                if g.r.chance(10)
                {
                    let n = match g.r.below(6) { 0 => g.r.range(1, 6), 1 => g.r.range(60, 70), 2 => g.r.range(120, 135), 3 => g.r.range(250, 262), 4 => g.r.range(500, 530), _ => g.r.range(7, 40) } as u16;
                    let m = if g.r.chance(50) { 0 } else { g.r.range(2, 9) as u8 };
                    steps.push(Step::Direct(WOp::SigBulk(n, m)));
                    if g.r.chance(20) { steps.push(Step::AppSetup); }
                    steps.push(Step::Direct(WOp::Gc));
                    steps.push(Step::Direct(WOp::Gc));
                    continue;
                }
                // signal ops keep the invariant: a drop that reaches zero is followed at once by a collection
                let s = g.r.below(4) as usize;
                if !sig_used[s] { sig_used[s] = true; sig_count[s] = 1; let slot = g.r.below(nslots as u64) as Slot; steps.push(Step::Direct(WOp::SigPrepare(s as u8, slot))); }
                else if sig_count[s] == 0 { continue; }
                else if g.r.chance(15)
                {
                    // chained release: the harness's clones of signal s end up owned by another slot's entity, whose own signal
                    // then reaches zero: the collection that despawns it releases s during the pass
                    let holder = g.r.below(nslots as u64) as Slot;
                    for _ in 0..sig_count[s] { steps.push(Step::Direct(WOp::SigMoveInto(s as u8, holder))); }
                    sig_count[s] = 0;
                    let s2 = (s + 1 + g.r.below(3) as usize) % 4;
                    if !sig_used[s2] { sig_used[s2] = true; steps.push(Step::Direct(WOp::SigPrepare(s2 as u8, holder))); steps.push(Step::Direct(WOp::SigDrop(s2 as u8))); sig_count[s2] = 0; }
                    else if g.r.chance(50) { steps.push(Step::Direct(WOp::Despawn(holder))); }
                    else { steps.push(Step::Direct(WOp::DespawnRec(holder))); }
                    steps.push(Step::Direct(WOp::Gc));
                    steps.push(Step::Direct(WOp::Gc));
                }
                else if g.r.chance(45) { sig_count[s] += 1; steps.push(Step::Direct(WOp::SigClone(s as u8))); }
                else
                {
                    sig_count[s] -= 1;
                    steps.push(Step::Direct(if g.r.chance(15) { WOp::SigDropUnwind(s as u8) } else { WOp::SigDrop(s as u8) }));
                    if sig_count[s] == 0
                    {
                        // sometimes further signal ops (possibly bringing another signal to zero) come before the collection
                        if g.r.chance(40)
                        {
                            for _ in 0..g.r.range(1, 3)
                            {
                                let s2 = g.r.below(4) as usize;
                                if !sig_used[s2] { sig_used[s2] = true; sig_count[s2] = 1; let slot = g.r.below(nslots as u64) as Slot; steps.push(Step::Direct(WOp::SigPrepare(s2 as u8, slot))); }
                                else if sig_count[s2] > 0 { if g.r.chance(30) { sig_count[s2] += 1; steps.push(Step::Direct(WOp::SigClone(s2 as u8))); } else { sig_count[s2] -= 1; steps.push(Step::Direct(WOp::SigDrop(s2 as u8))); } }
                            }
                        }
                        steps.push(Step::Direct(WOp::Gc));
                        if g.r.chance(30) { steps.push(Step::Direct(WOp::Gc)); }
                    }
                }
                continue;
            }
            if let Some(wop) = g.wop(&w, None, true)
            {
                let gc_after = matches!(wop, WOp::DropSysRc(_));
                // a system inserted into an entity, called, inserted *again* into the same entity (a new registration: fresh state,
                // possibly another function) and called again
                // the strip variants hide their own polls from the trace: a collection and two polls in front leave nothing else pending
                // (the second poll is for what the closing flush of the first one's reactions may cause: ruling A7)
                if matches!(wop, WOp::ReactorBulk(_, m) if m >= 2) { steps.push(Step::Direct(WOp::Gc)); steps.push(Step::Direct(WOp::Poll)); steps.push(Step::Direct(WOp::Poll)); }
                let again = match wop { WOp::InsertSys(k, s, key) if k < 2 && g.r.chance(50) => Some((k, s, key)), _ => None };
                steps.push(Step::Direct(wop));
                if gc_after { steps.push(Step::Direct(WOp::Gc)); }
                if let Some((k, s, key)) = again
                {
                    let (v1, v2) = (g.r.below(50) as u32, g.r.below(50) as u32);
                    let key2 = if g.r.chance(50) { key } else { (key + 1) % 3 };
                    steps.push(Step::Direct(WOp::Syscall(SysKind::Spawned, k, v1)));
                    steps.push(Step::Direct(WOp::InsertSys(k, s, key2)));
                    steps.push(Step::Direct(WOp::Syscall(SysKind::Spawned, k, v2)));
                }
            }
            continue;
        }
        let n = g.r.range(g.c.ops_per_batch.0, g.c.ops_per_batch.1);
        let mut ops = Vec::new();
        for _ in 0..n { if let Some(op) = g.op(None, Flavour::Plain, 0) { ops.push(op); } }
        if g.r.chance(g.c.pct_rereg) { if let Some((a, b)) = g.rereg_pair() { let at = g.r.below(ops.len() as u64 + 1) as usize; ops.insert(at, b); ops.insert(at, a); } }
        steps.push(Step::Batch(ops));
    }
    if g.r.chance(50) { steps.push(Step::Direct(WOp::Gc)); steps.push(Step::Direct(WOp::Poll)); }
    if g.wr.contains(&1) && g.r.chance(60) { let n = g.r.range(1, 3); let t: Vec<Trig> = (0..n).map(|_| g.any_trig()).collect(); prog.wr_starting = dedup(t); }
    prog.callees = if g.c.syscalls { crate::sysfam::gen_callees(&mut g) } else { Vec::new() };
    // app life cycle variation: the plugin is added after the app-level reactors. Reactive components cannot be inserted before
    // the plugin (documented panic), so the slots start empty and get their components at the start of the first batch.
    prog.plugin_last = g.r.chance(15);
    if prog.plugin_last
    {
        let mut pre = Vec::new();
        for (s, (a, b)) in prog.slots.iter_mut().enumerate()
        {
            if let Some(v) = a.take() { pre.push(Op::Insert(s as Slot, C::A, v)); }
            if let Some(v) = b.take() { pre.push(Op::Insert(s as Slot, C::B, v)); }
        }
        if let Some(Step::Batch(ops)) = steps.first_mut() { pre.append(ops); *ops = pre; }
    }
    prog.bystander = g.r.chance(12);
    prog.excl_noflush = g.noflush;
    if g.c.syscalls { for k in 0..3 { prog.callee_dw[k] = g.r.chance(g.c.pct_dw * 2); } }
    prog.insts = g.insts;
    prog.frame_systems = fs;
    prog.steps = steps;
    prog
}

/// Used by the syscall-family generator for callee scripts.
pub trait GenOps { fn plain_ops(&mut self, n: u64) -> Vec<Op>; fn rng(&mut self) -> &mut Rng; }
impl<'a> GenOps for G<'a>
{
    fn plain_ops(&mut self, n: u64) -> Vec<Op>
    {
        let mut ops = Vec::new();
        for _ in 0..n { if let Some(op) = self.op(None, Flavour::Plain, 2) { ops.push(op); } }
        ops
    }
    fn rng(&mut self) -> &mut Rng { self.r }
}
