//! Runs a `Program` against the real `bevy_cobweb` / Bevy code and records the observed trace.
use crate::dsl::*;
use crate::obs::{self, log, Ev, Post, Sample};
use bevy::ecs::entity::Entities;
use bevy::ecs::system::{SystemParam, SystemState};
use bevy::prelude::*;
use bevy::utils::HashMap;
use bevy_cobweb::prelude::*;
use std::collections::HashSet;
use std::panic::{catch_unwind, AssertUnwindSafe};
use std::sync::Arc;

//-------------------------------------------------------------------------------------------------------------------
// Types under test

/// Equality of the reactive values looks at the low two bits only: values can be equal and still distinguishable (like `0.0` and
/// `-0.0`, or a type whose `PartialEq` ignores a field), so `set_if_neq` with an equal value must be seen to keep the stored one.
pub fn veq(a: u8, b: u8) -> bool { a % 4 == b % 4 }

#[derive(ReactComponent, Debug)]
pub struct A(pub u8);
impl PartialEq for A { fn eq(&self, o: &Self) -> bool { veq(self.0, o.0) } }
#[derive(ReactComponent, Debug)]
pub struct B(pub u8);
impl PartialEq for B { fn eq(&self, o: &Self) -> bool { veq(self.0, o.0) } }
#[derive(ReactResource, Debug, Default)]
pub struct RR(pub u8);
impl PartialEq for RR { fn eq(&self, o: &Self) -> bool { veq(self.0, o.0) } }
#[derive(ReactResource, Debug, Default)]
pub struct RS(pub u8);
impl PartialEq for RS { fn eq(&self, o: &Self) -> bool { veq(self.0, o.0) } }
/// Never named by a system parameter of the harness, so it may be absent while systems run.
#[derive(ReactResource, Debug, Default)]
pub struct RT(pub u8);
impl PartialEq for RT { fn eq(&self, o: &Self) -> bool { veq(self.0, o.0) } }

pub trait CompVal: ReactComponent + PartialEq { fn mk(v: u8) -> Self; fn v(&self) -> u8; }
impl CompVal for A { fn mk(v: u8) -> Self { A(v) } fn v(&self) -> u8 { self.0 } }
impl CompVal for B { fn mk(v: u8) -> Self { B(v) } fn v(&self) -> u8 { self.0 } }
pub trait ResVal: ReactResource + PartialEq { fn mk(v: u8) -> Self; fn v(&self) -> u8; }
impl ResVal for RR { fn mk(v: u8) -> Self { RR(v) } fn v(&self) -> u8 { self.0 } }
impl ResVal for RS { fn mk(v: u8) -> Self { RS(v) } fn v(&self) -> u8 { self.0 } }
impl ResVal for RT { fn mk(v: u8) -> Self { RT(v) } fn v(&self) -> u8 { self.0 } }

/// Second field: an auto-despawn signal clone the payload owns (released when the payload is dropped).
pub struct X(pub u32, pub Option<AutoDespawnSignal>);
impl Drop for X { fn drop(&mut self) { log(Ev::Drop(self.0)); } }
pub struct Y(pub u32, pub Option<AutoDespawnSignal>);
impl Drop for Y { fn drop(&mut self) { log(Ev::Drop(self.0)); } }

/// Inserted once at setup and never touched again: `is_changed()` is true exactly on a system's first run.
#[derive(Resource)]
pub struct TickProbe;

/// Clones of auto-despawn signals owned by an entity (dropped with it).
#[derive(Component, Default)]
pub struct Holder(pub Vec<AutoDespawnSignal>);

/// Carried by every slot entity: its remove hook reports the exact moment the entity goes, whoever despawns it.
#[derive(Component)]
#[component(on_remove = tracked_gone)]
pub struct Tracked;
fn tracked_gone(_world: bevy::ecs::world::DeferredWorld, entity: Entity, _id: bevy::ecs::component::ComponentId) { log(Ev::Gone(entity.to_bits())); }

struct Canary(u8);
impl Drop for Canary { fn drop(&mut self) { log(Ev::Canary(self.0)); } }

#[derive(SystemParam)]
pub struct Readers<'w, 's>
{
    bx: BroadcastEvent<'w, 's, X>,
    by: BroadcastEvent<'w, 's, Y>,
    ex: EntityEvent<'w, 's, X>,
    ey: EntityEvent<'w, 's, Y>,
    sx: SystemEvent<'w, 's, X>,
    sy: SystemEvent<'w, 's, Y>,
    ia: InsertionEvent<'w, 's, A>,
    ib: InsertionEvent<'w, 's, B>,
    ma: MutationEvent<'w, 's, A>,
    mb: MutationEvent<'w, 's, B>,
    ra: RemovalEvent<'w, 's, A>,
    rb: RemovalEvent<'w, 's, B>,
    d: DespawnEvent<'w>,
    tick: Res<'w, TickProbe>,
}

impl<'w, 's> Readers<'w, 's>
{
    pub fn changed(&self) -> bool { self.tick.is_changed() }

    /// Samples every reader. Taken system-event payloads are returned so the caller can drop them after logging.
    pub fn sample(&mut self) -> (Sample, (Option<X>, Option<Y>))
    {
        let mut s = Sample::default();
        let mut held = (None, None);
        s.b[0] = self.bx.try_read().ok().map(|x| x.0);
        s.b[1] = self.by.try_read().ok().map(|x| x.0);
        s.e[0] = self.ex.try_read().ok().map(|(e, x)| (e.to_bits(), x.0));
        s.e[1] = self.ey.try_read().ok().map(|(e, x)| (e.to_bits(), x.0));
        // system events are taken; the id is copied out before the payload drops
        if let Ok(x) = self.sx.take() { s.s[0] = Some(x.0); held.0 = Some(x); }
        if let Ok(y) = self.sy.take() { s.s[1] = Some(y.0); held.1 = Some(y); }
        if s.s[0].is_some() && self.sx.take().is_ok() { s.second_take = true; }
        if s.s[1].is_some() && self.sy.take().is_ok() { s.second_take = true; }
        s.ins[0] = self.ia.get().ok().map(|e| e.to_bits());
        s.ins[1] = self.ib.get().ok().map(|e| e.to_bits());
        s.mu[0] = self.ma.get().ok().map(|e| e.to_bits());
        s.mu[1] = self.mb.get().ok().map(|e| e.to_bits());
        s.rem[0] = self.ra.get().ok().map(|e| e.to_bits());
        s.rem[1] = self.rb.get().ok().map(|e| e.to_bits());
        s.d = self.d.get().ok().map(|e| e.to_bits());
        // every accessor of a reader must tell the same story (the panicking ones are only called when there is something to read)
        let mut bad = false;
        macro_rules! bcast { ($r:expr, $v:expr) => { bad |= $r.is_empty() != $v.is_none(); if !$r.is_empty() { bad |= Some($r.read().0) != $v; } }; }
        bcast!(self.bx, s.b[0]); bcast!(self.by, s.b[1]);
        macro_rules! eev { ($r:expr, $v:expr) => { bad |= $r.is_empty() != $v.is_none(); bad |= $r.get_entity().ok().map(|e| e.to_bits()) != $v.map(|x| x.0); if !$r.is_empty() { let (e, x) = $r.read(); bad |= Some((e.to_bits(), x.0)) != $v; bad |= Some($r.entity().to_bits()) != $v.map(|x| x.0); } }; }
        eev!(self.ex, s.e[0]); eev!(self.ey, s.e[1]);
        macro_rules! ent { ($r:expr, $v:expr) => { bad |= $r.is_empty() != $v.is_none(); if !$r.is_empty() { bad |= Some($r.entity().to_bits()) != $v; } }; }
        ent!(self.ia, s.ins[0]); ent!(self.ib, s.ins[1]); ent!(self.ma, s.mu[0]); ent!(self.mb, s.mu[1]); ent!(self.ra, s.rem[0]); ent!(self.rb, s.rem[1]); ent!(self.d, s.d);
        s.inconsistent = bad;
        (s, held)
    }
}

/// Never attached to anything: `Populated<_, With<PopMarker>>` is a parameter whose `validate_param` says "no" (the query is
/// empty) while `get_param` works. Bevy's schedule executors would skip such a system; the library's runners and the syscall
/// family promise to *run* their target, and do (they never ask).
#[derive(Component)]
pub struct PopMarker;

#[derive(SystemParam)]
pub struct PlainParams<'w, 's>
{
    _pop: Populated<'w, 's, Entity, With<PopMarker>>,
    pub tick: Res<'w, TickProbe>,
    c: Commands<'w, 's>,
    h: ResMut<'w, H>,
    qa: ReactiveMut<'w, 's, A>,
    qb: ReactiveMut<'w, 's, B>,
    rr: ReactResMut<'w, RR>,
    rs: ReactResMut<'w, RS>,
}

impl<'w, 's> PlainParams<'w, 's> { pub fn h_mut(&mut self) -> &mut H { &mut self.h } }

//-------------------------------------------------------------------------------------------------------------------
// Resolved triggers and a dynamic trigger bundle

#[derive(Clone, Copy, Debug, PartialEq, Eq, Hash)]
pub enum RTrig
{
    Broadcast(P),
    AnyEntityEvent(P),
    EntityEvent(Entity, P),
    Resource(R),
    Insertion(C),
    Mutation(C),
    Removal(C),
    EntityInsertion(Entity, C),
    EntityMutation(Entity, C),
    EntityRemoval(Entity, C),
    Despawn(Entity),
}

macro_rules! with_trigger {
    ($t:expr, |$x:ident| $body:expr) => {
        match $t {
            RTrig::Broadcast(P::X) => { let $x = broadcast::<X>(); $body }
            RTrig::Broadcast(P::Y) => { let $x = broadcast::<Y>(); $body }
            RTrig::AnyEntityEvent(P::X) => { let $x = any_entity_event::<X>(); $body }
            RTrig::AnyEntityEvent(P::Y) => { let $x = any_entity_event::<Y>(); $body }
            RTrig::EntityEvent(e, P::X) => { let $x = entity_event::<X>(e); $body }
            RTrig::EntityEvent(e, P::Y) => { let $x = entity_event::<Y>(e); $body }
            RTrig::Resource(R::R) => { let $x = resource_mutation::<RR>(); $body }
            RTrig::Resource(R::S) => { let $x = resource_mutation::<RS>(); $body }
            RTrig::Resource(R::T) => { let $x = resource_mutation::<RT>(); $body }
            RTrig::Insertion(C::A) => { let $x = insertion::<A>(); $body }
            RTrig::Insertion(C::B) => { let $x = insertion::<B>(); $body }
            RTrig::Mutation(C::A) => { let $x = mutation::<A>(); $body }
            RTrig::Mutation(C::B) => { let $x = mutation::<B>(); $body }
            RTrig::Removal(C::A) => { let $x = removal::<A>(); $body }
            RTrig::Removal(C::B) => { let $x = removal::<B>(); $body }
            RTrig::EntityInsertion(e, C::A) => { let $x = entity_insertion::<A>(e); $body }
            RTrig::EntityInsertion(e, C::B) => { let $x = entity_insertion::<B>(e); $body }
            RTrig::EntityMutation(e, C::A) => { let $x = entity_mutation::<A>(e); $body }
            RTrig::EntityMutation(e, C::B) => { let $x = entity_mutation::<B>(e); $body }
            RTrig::EntityRemoval(e, C::A) => { let $x = entity_removal::<A>(e); $body }
            RTrig::EntityRemoval(e, C::B) => { let $x = entity_removal::<B>(e); $body }
            RTrig::Despawn(e) => { let $x = despawn(e); $body }
        }
    };
}

pub const MAX_BUNDLE: usize = 8;

/// A trigger bundle whose content is decided at run time (users may implement `ReactionTriggerBundle` themselves;
/// every member delegates to the library's own trigger types).
#[derive(Clone, Copy, Debug)]
pub struct DynBundle
{
    n: usize,
    t: [Option<RTrig>; MAX_BUNDLE],
}

impl DynBundle
{
    pub fn new(trigs: &[RTrig]) -> Self
    {
        let mut t = [None; MAX_BUNDLE];
        let n = trigs.len().min(MAX_BUNDLE);
        for (i, x) in trigs.iter().take(n).enumerate() { t[i] = Some(*x); }
        Self { n, t }
    }
}

impl ReactionTriggerBundle for DynBundle
{
    fn len(&self) -> usize { self.n }

    fn collect_reactor_types(self, func: &mut impl FnMut(ReactorType))
    {
        for t in self.t.iter().take(self.n).flatten() { with_trigger!(*t, |x| func(x.reactor_type())); }
    }

    fn register_triggers(self, commands: &mut Commands, handle: &ReactorHandle)
    {
        for t in self.t.iter().take(self.n).flatten() { with_trigger!(*t, |x| x.register(commands, handle)); }
    }
}

//-------------------------------------------------------------------------------------------------------------------
// World reactors

pub struct W0(pub u8);
impl WorldReactor for W0
{
    type StartingTriggers = ();
    type Triggers = DynBundle;
    fn reactor(self) -> SystemCommandCallback { SystemCommandCallback::new(plain_actor::<()>(self.0)) }
}
pub struct W1(pub u8);
impl WorldReactor for W1
{
    type StartingTriggers = DynBundle;
    type Triggers = DynBundle;
    fn reactor(self) -> SystemCommandCallback { SystemCommandCallback::new(plain_actor::<()>(self.0)) }
}

pub struct T0(pub u8);
impl EntityWorldReactor for T0
{
    type Triggers = (EntityMutationTrigger<A>, EntityEventTrigger<X>);
    type Local = u32;
    fn reactor(self) -> SystemCommandCallback { SystemCommandCallback::new(ewr_actor::<T0>(self.0)) }
}
pub struct T1(pub u8);
impl EntityWorldReactor for T1
{
    type Triggers = (EntityInsertionTrigger<B>, EntityRemovalTrigger<B>, EntityEventTrigger<Y>);
    type Local = u32;
    fn reactor(self) -> SystemCommandCallback { SystemCommandCallback::new(ewr_actor::<T1>(self.0)) }
}

/// Triggers of the entity world reactors' bundles, in bundle order.
pub fn ewr_trigs(t: u8, slot: Slot) -> Vec<Trig>
{
    match t
    {
        0 => vec![Trig::EntityMutation(slot, C::A), Trig::EntityEvent(slot, P::X)],
        _ => vec![Trig::EntityInsertion(slot, C::B), Trig::EntityRemoval(slot, C::B), Trig::EntityEvent(slot, P::Y)],
    }
}

//-------------------------------------------------------------------------------------------------------------------
// Harness state

#[derive(Resource)]
pub struct H
{
    pub prog: Arc<Program>,
    pub slots: Vec<Entity>,
    pub insts: Vec<Option<SystemCommand>>,
    pub tokens: Vec<Option<RevokeToken>>,
    /// the signal of every ref-counted pre-spawned system command (`InstDef::rc`)
    pub inst_sigs: Vec<Option<AutoDespawnSignal>>,
    /// `On`/`Once` op for this instance already executed.
    pub created: Vec<bool>,
    /// harness-side run counter per instance: selects the script, so a system whose own state is lost cannot loop forever
    pub runs: Vec<u32>,
    pub total_runs: u32,
    pub sigs: Vec<Vec<AutoDespawnSignal>>,
    pub sig_ent: Vec<Option<Entity>>,
    /// Every entity the harness created or was told about.
    pub known: Vec<Entity>,
    pub wr_keys: [HashSet<RTrig>; 2],
    /// entity bits -> remaining trigger mask
    pub ewr_members: [HashMap<Entity, u8>; 2],
    pub base_entities: i64,
    pub callee_seq: u32,
    /// invocations per callee function key (selects the callee script; kept outside system state)
    pub callee_calls: [u32; 3],
    pub sys: Vec<Option<SysId>>,
    pub sys_sigs: Vec<Option<AutoDespawnSignal>>,
    /// bulk signal scenario: entities whose signals were all dropped / (entity, clone) pairs kept alive
    pub bulk_dropped: Vec<Entity>,
    pub bulk_kept: Vec<(Entity, AutoDespawnSignal)>,
}

impl H
{
    /// A table that can only resolve slots (used before the real one exists).
    pub(crate) fn for_resolve(prog: Arc<Program>, slots: Vec<Entity>) -> H
    {
        H { prog, slots, insts: Vec::new(), tokens: Vec::new(), inst_sigs: Vec::new(), created: Vec::new(), runs: Vec::new(), total_runs: 0, sigs: Vec::new(), sig_ent: Vec::new(), known: Vec::new(),
            wr_keys: [HashSet::new(), HashSet::new()], ewr_members: [HashMap::new(), HashMap::new()], base_entities: 0, callee_seq: 0, callee_calls: [0; 3], sys: Vec::new(), sys_sigs: Vec::new(), bulk_dropped: Vec::new(), bulk_kept: Vec::new() }
    }
    fn resolve(&self, t: &Trig) -> RTrig
    {
        let e = |s: Slot| self.slots[s as usize];
        match *t
        {
            Trig::Broadcast(p) => RTrig::Broadcast(p),
            Trig::AnyEntityEvent(p) => RTrig::AnyEntityEvent(p),
            Trig::EntityEvent(s, p) => RTrig::EntityEvent(e(s), p),
            Trig::Resource(r) => RTrig::Resource(r),
            Trig::Insertion(c) => RTrig::Insertion(c),
            Trig::Mutation(c) => RTrig::Mutation(c),
            Trig::Removal(c) => RTrig::Removal(c),
            Trig::EntityInsertion(s, c) => RTrig::EntityInsertion(e(s), c),
            Trig::EntityMutation(s, c) => RTrig::EntityMutation(e(s), c),
            Trig::EntityRemoval(s, c) => RTrig::EntityRemoval(e(s), c),
            Trig::Despawn(s) => RTrig::Despawn(e(s)),
        }
    }
    fn bundle(&self, trigs: &[Trig]) -> DynBundle
    {
        let v: Vec<RTrig> = trigs.iter().map(|t| self.resolve(t)).collect();
        DynBundle::new(&v)
    }
    pub fn next_run(&mut self, inst: Inst) -> u32
    {
        self.total_runs += 1;
        if self.total_runs > 4000 { panic!("runaway: more than 4000 system runs in one program"); }
        self.runs[inst as usize] += 1;
        self.runs[inst as usize]
    }
    fn set_inst(&mut self, inst: Inst, sc: SystemCommand)
    {
        self.insts[inst as usize] = Some(sc);
        self.known.push(*sc);
        log(Ev::InstEntity { inst, e: sc.to_bits() });
    }
}

//-------------------------------------------------------------------------------------------------------------------
// Actors

/// The run counter every actor keeps in a `Local`. Creating it is observable: a system's state is created exactly once (C13).
pub struct Cnt(pub u32);
impl FromWorld for Cnt { fn from_world(_: &mut World) -> Self { log(Ev::StateCreated); Cnt(0) } }

pub trait MkRet: CobwebResult { fn mk(err: bool) -> Self; }
impl MkRet for () { fn mk(_: bool) -> Self {} }
impl MkRet for DropErr { fn mk(err: bool) -> Self { if err { Err(IgnoredError) } else { Ok(()) } } }
impl MkRet for WarnErr { fn mk(err: bool) -> Self { if err { Err(WarnError::None) } else { Ok(()) } } }

pub fn plain_actor<Ret: MkRet>(inst: u8) -> impl FnMut(Readers, PlainParams, Local<Cnt>) -> Ret + Send + Sync + 'static
{
    let mut cap = 0u32;
    let canary = Canary(inst);
    move |mut r: Readers, mut p: PlainParams, mut n: Local<Cnt>|
    {
        let _ = &canary;
        n.0 += 1;
        cap += 1;
        let (s, held) = r.sample();
        log(Ev::Body { inst, n: n.0, cap, s, chg: r.changed() });
        drop(held);
        let run = p.h.next_run(inst);
        let prog = p.h.prog.clone();
        let ops = prog.insts[inst as usize].script(run);
        let err = interp(ops, inst, run, &mut p);
        log(Ev::BodyEnd { inst, n: run, err });
        Ret::mk(err)
    }
}

/// Same as `plain_actor::<()>` but every parameter except the `Local` is a member of one `ParamSet` (a legitimate way of
/// writing a system; Bevy then reports the system's deferred buffers differently).
pub fn ps_actor(inst: u8) -> impl FnMut(ParamSet<(Readers, PlainParams)>, Local<Cnt>) + Send + Sync + 'static
{
    let mut cap = 0u32;
    let canary = Canary(inst);
    move |mut ps: ParamSet<(Readers, PlainParams)>, mut n: Local<Cnt>|
    {
        let _ = &canary;
        n.0 += 1;
        cap += 1;
        let ((s, held), chg) = { let mut r = ps.p0(); (r.sample(), r.changed()) };
        log(Ev::Body { inst, n: n.0, cap, s, chg });
        drop(held);
        let mut p = ps.p1();
        let run = p.h.next_run(inst);
        let prog = p.h.prog.clone();
        let ops = prog.insts[inst as usize].script(run);
        let err = interp(ops, inst, run, &mut p);
        log(Ev::BodyEnd { inst, n: run, err });
    }
}

/// A system that reaches the world through `DeferredWorld` only: all its commands go on the world's own command queue.
pub fn dw_actor(inst: u8) -> impl FnMut(ParamSet<(Readers, bevy::ecs::world::DeferredWorld)>, Local<Cnt>) + Send + Sync + 'static
{
    let mut cap = 0u32;
    let canary = Canary(inst);
    move |mut ps: ParamSet<(Readers, bevy::ecs::world::DeferredWorld)>, mut n: Local<Cnt>|
    {
        let _ = &canary;
        n.0 += 1;
        cap += 1;
        let ((s, held), chg) = { let mut r = ps.p0(); (r.sample(), r.changed()) };
        log(Ev::Body { inst, n: n.0, cap, s, chg });
        drop(held);
        let mut dw = ps.p1();
        let prog = dw.resource::<H>().prog.clone();
        // (the table is taken out for the duration of the body: a `DeferredWorld` hands out one borrow at a time)
        let mut h = std::mem::replace(&mut *dw.resource_mut::<H>(), H::for_resolve(prog.clone(), Vec::new()));
        let run = h.next_run(inst);
        let ops = prog.insts[inst as usize].script(run);
        for (idx, op) in ops.iter().enumerate()
        {
            let u = uid(inst, run, idx);
            let mut c = dw.commands();
            c.queue(move |_: &mut World| log(Ev::Apply(u)));
            let _ = interp_basic(op, u, &mut c, &mut h);
            c.queue(move |_: &mut World| log(Ev::ApplyEnd(u)));
        }
        *dw.resource_mut::<H>() = h;
        log(Ev::BodyEnd { inst, n: run, err: false });
    }
}

pub fn ewr_actor<T: EntityWorldReactor<Local = u32>>(inst: u8)
    -> impl FnMut(EntityLocal<T>, Readers, PlainParams, Local<Cnt>, &Entities) + Send + Sync + 'static
{
    let mut cap = 0u32;
    let canary = Canary(inst);
    move |mut l: EntityLocal<T>, mut r: Readers, mut p: PlainParams, mut n: Local<Cnt>, ents: &Entities|
    {
        let _ = &canary;
        n.0 += 1;
        cap += 1;
        let (s, held) = r.sample();
        log(Ev::Body { inst, n: n.0, cap, s, chg: r.changed() });
        drop(held);
        let src = l.entity();
        let src_alive = ents.contains(src);
        // `EntityLocal::get_mut` panics when the data is gone (see DESIGN A5), so probe it under catch_unwind.
        let val = if src_alive
        {
            catch_unwind(AssertUnwindSafe(|| { let (_, v) = l.get_mut(); let old = *v; *v += 100; old })).ok()
        }
        else { None };
        log(Ev::EwrLocal { inst, src: src.to_bits(), val, src_alive });
        let run = p.h.next_run(inst);
        let prog = p.h.prog.clone();
        let ops = prog.insts[inst as usize].script(run);
        let err = interp(ops, inst, run, &mut p);
        log(Ev::BodyEnd { inst, n: run, err });
    }
}

pub fn excl_actor<Ret: MkRet>(inst: u8) -> impl FnMut(&mut World, &mut SystemState<Readers<'static, 'static>>, Local<Cnt>) -> Ret + Send + Sync + 'static
{
    let mut cap = 0u32;
    let canary = Canary(inst);
    move |world: &mut World, st: &mut SystemState<Readers<'static, 'static>>, mut n: Local<Cnt>|
    {
        let _ = &canary;
        n.0 += 1;
        cap += 1;
        // An exclusive system reads its event through a nested system: every third instance through its own `SystemState`, the
        // others through `World::syscall_once` / `World::syscall_once_with_validation` (which flush when they return, so the
        // observation is logged from inside the nested system).
        let held = if inst % 3 == 0
        {
            let ((s, held), chg) = { let mut r = st.get_mut(world); (r.sample(), r.changed()) };
            log(Ev::Body { inst, n: n.0, cap, s, chg });
            held
        }
        else
        {
            let chg = st.get_mut(world).changed();
            let sampler = |In((inst, n, cap, chg)): In<(u8, u32, u32, bool)>, mut r: Readers| { let (s, held) = r.sample(); log(Ev::Body { inst, n, cap, s, chg }); held };
            if inst % 3 == 1 { world.syscall_once((inst, n.0, cap, chg), sampler) } else { world.syscall_once_with_validation((inst, n.0, cap, chg), sampler, |_| {}) }
        };
        drop(held);
        let run = world.resource_mut::<H>().next_run(inst);
        let prog = world.resource::<H>().prog.clone();
        let ops = prog.insts[inst as usize].script(run);
        // the script in order: `Now` ops act on the world immediately, everything else is queued on the world's command queue
        // (behind the cleanup the library queued before the body) and is applied at the next flush -- which may well be one
        // that a later `Now` op of the same body causes
        let mut err = false;
        for (idx, op) in ops.iter().enumerate()
        {
            let u = uid(inst, run, idx);
            match op
            {
                Op::ReturnErr => { err = true; break; }
                Op::Now(w) =>
                {
                    log(Ev::Now(u));
                    // What is still queued is flushed before the world is touched. Running a system command or sending a system
                    // event directly does that itself, first thing (runner entry / `World::spawn`), and C12 relies on it; for the
                    // other operations the point at which Bevy flushes relative to their own work is Bevy's business, so the body
                    // flushes explicitly, as careful user code would.
                    // (`excl_noflush` programs leave that to the call for the trigger calls, all of which go through the framework)
                    let lazy = prog.excl_noflush && matches!(w, WOp::Broadcast(_) | WOp::EntityEvent(..) | WOp::TriggerMutation(..) | WOp::TriggerRes(_));
                    if !matches!(w, WOp::Run(_) | WOp::SysEvent(..)) && !lazy { world.flush(); }
                    exec_wop(world, w, u);
                    log(Ev::NowEnd(u));
                }
                _ =>
                {
                    world.resource_scope(|world: &mut World, mut h: Mut<H>|
                    {
                        let mut c = world.commands();
                        c.queue(move |_: &mut World| log(Ev::Apply(u)));
                        let _ = interp_basic(op, u, &mut c, &mut h);
                        c.queue(move |_: &mut World| log(Ev::ApplyEnd(u)));
                    });
                }
            }
        }
        log(Ev::BodyEnd { inst, n: run, err });
        Ret::mk(err)
    }
}

fn spawn_actor_cmd(c: &mut Commands, inst: Inst, flavour: Flavour) -> SystemCommand
{
    match flavour
    {
        Flavour::Plain => c.spawn_system_command(plain_actor::<()>(inst)),
        Flavour::FallibleDrop => c.spawn_system_command(plain_actor::<DropErr>(inst)),
        Flavour::FallibleWarn => c.spawn_system_command(plain_actor::<WarnErr>(inst)),
        Flavour::Exclusive => c.spawn_system_command(excl_actor::<()>(inst)),
        Flavour::ExclusiveWarn => c.spawn_system_command(excl_actor::<WarnErr>(inst)),
        Flavour::InParamSet => c.spawn_system_command(ps_actor(inst)),
        Flavour::DeferredW => c.spawn_system_command(dw_actor(inst)),
        Flavour::CustomCb =>
        {
            let mut cb = CallbackSystem::<(), ()>::new(plain_actor::<()>(inst));
            c.spawn_system_command_from(SystemCommandCallback::with(move |world: &mut World, _cleanup: SystemCommandCleanup|
            {
                cb.initialize(world);
                let _ = cb.run(world, ());
            }))
        }
    }
}

fn probe_system(In(uid): In<u32>, mut r: Readers)
{
    let (s, held) = r.sample();
    log(Ev::Probe { uid, s });
    drop(held);
}

//-------------------------------------------------------------------------------------------------------------------
// Interpreter: ops that only need `Commands` and the harness tables

/// Returns `Some(true)` if the body must stop with an error, `None` if the op needs system params.
pub(crate) fn interp_basic(op: &Op, u: u32, c: &mut Commands, h: &mut H) -> Option<bool>
{
    match op
    {
        Op::Run(i) => { if let Some(sc) = h.insts[*i as usize] { c.queue(sc); } }
        Op::SysEvent(i, p) =>
        {
            if let Some(sc) = h.insts[*i as usize]
            {
                match p { P::X => c.send_system_event(sc, X(u, None)), P::Y => c.send_system_event(sc, Y(u, None)) }
            }
        }
        // (every third one goes through the `ReactCommands` of an `EntityCommands` -- of an unrelated, living entity)
        Op::Broadcast(p) =>
        {
            match (u % 3 == 1).then(|| c.get_entity(h.slots[0])).flatten()
            {
                Some(mut ec) => match p { P::X => ec.react().broadcast(X(u, None)), P::Y => ec.react().broadcast(Y(u, None)) },
                None => match p { P::X => c.react().broadcast(X(u, None)), P::Y => c.react().broadcast(Y(u, None)) },
            }
        }
        Op::EntityEvent(s, p) =>
        {
            let e = h.slots[*s as usize];
            match (u % 3 == 1).then(|| c.get_entity(h.slots[0])).flatten()
            {
                Some(mut ec) => match p { P::X => ec.react().entity_event(e, X(u, None)), P::Y => ec.react().entity_event(e, Y(u, None)) },
                None => match p { P::X => c.react().entity_event(e, X(u, None)), P::Y => c.react().entity_event(e, Y(u, None)) },
            }
        }
        Op::BroadcastSig(p, k) =>
        {
            let sig = h.sigs[*k as usize % 4].pop();
            match p { P::X => c.react().broadcast(X(u, sig)), P::Y => c.react().broadcast(Y(u, sig)) }
        }
        Op::EntityEventSig(s, p, k) =>
        {
            let e = h.slots[*s as usize];
            let sig = h.sigs[*k as usize % 4].pop();
            match p { P::X => c.react().entity_event(e, X(u, sig)), P::Y => c.react().entity_event(e, Y(u, sig)) }
        }
        Op::SysEventSig(i, p, k) =>
        {
            if let Some(sc) = h.insts[*i as usize]
            {
                let sig = h.sigs[*k as usize % 4].pop();
                match p { P::X => c.send_system_event(sc, X(u, sig)), P::Y => c.send_system_event(sc, Y(u, sig)) }
            }
        }
        Op::TriggerRes(r) => match r
        {
            R::R => c.react().trigger_resource_mutation::<RR>(),
            R::S => c.react().trigger_resource_mutation::<RS>(),
            R::T => c.react().trigger_resource_mutation::<RT>(),
        },
        Op::Insert(s, comp, v) =>
        {
            let e = h.slots[*s as usize];
            match comp { C::A => c.react().insert(e, A(*v)), C::B => c.react().insert(e, B(*v)) }
        }
        Op::Remove(s, comp) =>
        {
            let e = h.slots[*s as usize];
            if let Some(mut ec) = c.get_entity(e)
            {
                match comp { C::A => { ec.remove::<React<A>>(); } C::B => { ec.remove::<React<B>>(); } }
            }
        }
        Op::Despawn(s) => { let e = h.slots[*s as usize]; if let Some(mut ec) = c.get_entity(e) { ec.despawn(); } }
        Op::DespawnRec(s) => { let e = h.slots[*s as usize]; if let Some(ec) = c.get_entity(e) { ec.despawn_recursive(); } }
        Op::Register { inst, mode, trigs } =>
        {
            if let Some(sc) = h.insts[*inst as usize]
            {
                let b = h.bundle(trigs);
                let m = match mode { Mode::Persistent => ReactorMode::Persistent, Mode::Cleanup => ReactorMode::Cleanup, Mode::Revokable => ReactorMode::Revokable };
                let tok = c.react().with(b, sc, m);
                if tok.is_some() { h.tokens[*inst as usize] = tok; }
            }
        }
        Op::On { inst, mode, trigs } =>
        {
            if !h.created[*inst as usize]
            {
                h.created[*inst as usize] = true;
                let b = h.bundle(trigs);
                let flavour = h.prog.insts[*inst as usize].flavour;
                // The new system only becomes a target for other ops once its spawn command has been applied
                // (despawning a reserved entity before `Commands::spawn` is applied is a Bevy-level panic, not under test).
                let i = *inst;
                let publish = |c: &mut Commands, sc: SystemCommand| { c.queue(move |w: &mut World| { w.resource_mut::<H>().set_inst(i, sc); }); };
                match (mode, flavour)
                {
                    (Mode::Persistent, Flavour::FallibleDrop) => { let sc = c.react().on_persistent(b, plain_actor::<DropErr>(i)); publish(c, sc); }
                    (Mode::Persistent, Flavour::Exclusive) => { let sc = c.react().on_persistent(b, excl_actor::<()>(i)); publish(c, sc); }
                    (Mode::Persistent, Flavour::InParamSet) => { let sc = c.react().on_persistent(b, ps_actor(i)); publish(c, sc); }
                    (Mode::Persistent, Flavour::DeferredW) => { let sc = c.react().on_persistent(b, dw_actor(i)); publish(c, sc); }
                    (Mode::Persistent, _) => { let sc = c.react().on_persistent(b, plain_actor::<()>(i)); publish(c, sc); }
                    (Mode::Revokable, Flavour::FallibleDrop) => { let t = c.react().on_revokable(b, plain_actor::<DropErr>(i)); publish(c, SystemCommand::from(t.clone())); h.tokens[i as usize] = Some(t); }
                    (Mode::Revokable, Flavour::Exclusive) => { let t = c.react().on_revokable(b, excl_actor::<()>(i)); publish(c, SystemCommand::from(t.clone())); h.tokens[i as usize] = Some(t); }
                    (Mode::Revokable, Flavour::InParamSet) => { let t = c.react().on_revokable(b, ps_actor(i)); publish(c, SystemCommand::from(t.clone())); h.tokens[i as usize] = Some(t); }
                    (Mode::Revokable, Flavour::DeferredW) => { let t = c.react().on_revokable(b, dw_actor(i)); publish(c, SystemCommand::from(t.clone())); h.tokens[i as usize] = Some(t); }
                    (Mode::Revokable, _) => { let t = c.react().on_revokable(b, plain_actor::<()>(i)); publish(c, SystemCommand::from(t.clone())); h.tokens[i as usize] = Some(t); }
                    // `on` returns nothing: the reactor's entity stays unknown to the harness
                    (Mode::Cleanup, Flavour::FallibleDrop) => { c.react().on(b, plain_actor::<DropErr>(i)); }
                    (Mode::Cleanup, Flavour::Exclusive) => { c.react().on(b, excl_actor::<()>(i)); }
                    (Mode::Cleanup, Flavour::InParamSet) => { c.react().on(b, ps_actor(i)); }
                    (Mode::Cleanup, Flavour::DeferredW) => { c.react().on(b, dw_actor(i)); }
                    (Mode::Cleanup, _) => { c.react().on(b, plain_actor::<()>(i)); }
                }
            }
        }
        Op::Once { inst, trigs } =>
        {
            if !h.created[*inst as usize]
            {
                h.created[*inst as usize] = true;
                let b = h.bundle(trigs);
                let t = match h.prog.insts[*inst as usize].flavour
                {
                    Flavour::FallibleWarn => c.react().once(b, plain_actor::<WarnErr>(*inst)),
                    Flavour::FallibleDrop => c.react().once(b, plain_actor::<DropErr>(*inst)),
                    Flavour::Exclusive => c.react().once(b, excl_actor::<()>(*inst)),
                    _ => c.react().once(b, plain_actor::<()>(*inst)),
                };
                let sc = SystemCommand::from(t.clone());
                h.set_inst(*inst, sc);
                h.tokens[*inst as usize] = Some(t);
            }
        }
        Op::Revoke(i) => { if let Some(t) = h.tokens[*i as usize].clone() { c.react().revoke(t); } }
        Op::KillInst(i) =>
        {
            if let Some(sc) = h.insts[*i as usize] { c.queue(move |w: &mut World| { w.despawn(*sc); }); }
        }
        Op::Probe => { c.syscall(u, probe_system); }
        Op::ReturnErr => { return Some(true); }
        Op::Direct(w) =>
        {
            let w = w.clone();
            c.queue(move |world: &mut World| exec_wop(world, &w, u));
        }
        Op::WrAdd(k, trigs) =>
        {
            let k = *k;
            let rt: Vec<RTrig> = trigs.iter().map(|t| h.resolve(t)).collect();
            c.queue(move |w: &mut World|
            {
                // type-wide and despawn triggers are added once (duplicates of those are not judgeable, DESIGN A4); entity-scoped ones may repeat
                let keep: Vec<RTrig> = { let mut h = w.resource_mut::<H>(); rt.iter().copied().filter(|t| { let fresh = h.wr_keys[k as usize].insert(*t); fresh || matches!(t, RTrig::EntityEvent(..) | RTrig::EntityInsertion(..) | RTrig::EntityMutation(..) | RTrig::EntityRemoval(..)) }).collect() };
                log(Ev::Kept { uid: u, n: keep.len() as u8 });
                if keep.is_empty() { return; }
                let b = DynBundle::new(&keep);
                if k == 0 { w.syscall(b, |In(b): In<DynBundle>, mut c: Commands, r: Reactor<W0>| { r.add(&mut c, b); }); }
                else { w.syscall(b, |In(b): In<DynBundle>, mut c: Commands, r: Reactor<W1>| { r.add(&mut c, b); }); }
            });
        }
        Op::WrRemove(k, trigs) =>
        {
            let k = *k;
            let rt: Vec<RTrig> = trigs.iter().map(|t| h.resolve(t)).collect();
            c.queue(move |w: &mut World|
            {
                { let mut h = w.resource_mut::<H>(); for t in &rt { h.wr_keys[k as usize].remove(t); } }
                let b = DynBundle::new(&rt);
                if k == 0 { w.syscall(b, |In(b): In<DynBundle>, mut c: Commands, r: Reactor<W0>| { r.remove(&mut c, b); }); }
                else { w.syscall(b, |In(b): In<DynBundle>, mut c: Commands, r: Reactor<W1>| { r.remove(&mut c, b); }); }
            });
        }
        Op::WrRun(k) =>
        {
            let k = *k;
            c.queue(move |w: &mut World|
            {
                if k == 0 { w.syscall((), |mut c: Commands, r: Reactor<W0>| { r.run(&mut c); }); }
                else { w.syscall((), |mut c: Commands, r: Reactor<W1>| { r.run(&mut c); }); }
            });
        }
        Op::EwrAdd(k, s, data) | Op::EwrAddEc(k, s, data) =>
        {
            let via_ec = matches!(op, Op::EwrAddEc(..));
            let (k, data) = (*k, *data);
            let e = h.slots[*s as usize];
            c.queue(move |w: &mut World|
            {
                // (adding an entity that is already a member replaces its data and registers its triggers once more)
                let alive = w.get_entity(e).is_ok();
                if !alive { log(Ev::Kept { uid: u, n: 0 }); return; }
                let full: u8 = if k == 0 { 0b11 } else { 0b111 };
                w.resource_mut::<H>().ewr_members[k as usize].insert(e, full);
                log(Ev::Kept { uid: u, n: 1 });
                if via_ec
                {
                    let mut cmds = w.commands();
                    let mut ec = cmds.entity(e);
                    if k == 0 { ec.add_world_reactor::<T0>(data); } else { ec.add_world_reactor::<T1>(data); }
                    w.flush();
                }
                else if k == 0 { w.syscall((e, data), |In((e, d)): In<(Entity, u32)>, mut c: Commands, r: EntityReactor<T0>| { r.add(&mut c, e, d); }); }
                else { w.syscall((e, data), |In((e, d)): In<(Entity, u32)>, mut c: Commands, r: EntityReactor<T1>| { r.add(&mut c, e, d); }); }
            });
        }
        Op::EwrRemove(k, s, mask) =>
        {
            let (k, mask) = (*k, *mask);
            let e = h.slots[*s as usize];
            let all = ewr_trigs(k, *s);
            let sel: Vec<RTrig> = all.iter().enumerate().filter(|(i, _)| mask & (1 << i) != 0).map(|(_, t)| h.resolve(t)).collect();
            c.queue(move |w: &mut World|
            {
                { let mut h = w.resource_mut::<H>(); if let Some(m) = h.ewr_members[k as usize].get_mut(&e) { *m &= !mask; } }
                let b = DynBundle::new(&sel);
                if k == 0 { w.syscall(b, |In(b): In<DynBundle>, mut c: Commands, r: EntityReactor<T0>| { r.remove(&mut c, b); }); }
                else { w.syscall(b, |In(b): In<DynBundle>, mut c: Commands, r: EntityReactor<T1>| { r.remove(&mut c, b); }); }
            });
        }
        Op::EwrRemoveMany(k, parts) =>
        {
            let k = *k;
            let mut sel: Vec<RTrig> = Vec::new();
            let mut ents: Vec<(Entity, u8)> = Vec::new();
            for (s, mask) in parts
            {
                let all = ewr_trigs(k, *s);
                for (i, t) in all.iter().enumerate() { if mask & (1 << i) != 0 && sel.len() < MAX_BUNDLE { sel.push(h.resolve(t)); } }
                ents.push((h.slots[*s as usize], *mask));
            }
            c.queue(move |w: &mut World|
            {
                { let mut h = w.resource_mut::<H>(); for (e, mask) in &ents { if let Some(m) = h.ewr_members[k as usize].get_mut(e) { *m &= !mask; } } }
                let b = DynBundle::new(&sel);
                if k == 0 { w.syscall(b, |In(b): In<DynBundle>, mut c: Commands, r: EntityReactor<T0>| { r.remove(&mut c, b); }); }
                else { w.syscall(b, |In(b): In<DynBundle>, mut c: Commands, r: EntityReactor<T1>| { r.remove(&mut c, b); }); }
            });
        }
        Op::CmdSyscall(kind, key, input) => { crate::sysfam::cmd_syscall(c, h, *kind, *key, *input, u); }
        Op::Now(_) => {}
        Op::Mutate(..) | Op::SetIfNeq(..) | Op::Noreact(..) | Op::Read(..) | Op::ResMut(..) | Op::ResSetIfNeq(..) | Op::ResNoreact(..) => return None,
    }
    Some(false)
}

/// Interprets a script inside a non-exclusive system. Returns `true` if the body returns an error.
pub fn interp(ops: &[Op], issuer: u8, run: u32, p: &mut PlainParams) -> bool
{
    for (idx, op) in ops.iter().enumerate()
    {
        let u = uid(issuer, run, idx);
        if matches!(op, Op::ReturnErr) { return true; }
        p.c.queue(move |_: &mut World| log(Ev::Apply(u)));
        match interp_basic(op, u, &mut p.c, &mut p.h)
        {
            Some(true) => return true,
            Some(false) => { p.c.queue(move |_: &mut World| log(Ev::ApplyEnd(u))); continue; }
            None => {}
        }
        match op
        {
            Op::Mutate(s, comp, v) =>
            {
                let e = p.h.slots[*s as usize];
                match comp
                {
                    C::A => { if let Ok(x) = p.qa.get_mut(&mut p.c, e) { x.0 = *v; } }
                    C::B => { if let Ok(x) = p.qb.get_mut(&mut p.c, e) { x.0 = *v; } }
                }
            }
            Op::SetIfNeq(s, comp, v) =>
            {
                let e = p.h.slots[*s as usize];
                let old = match comp
                {
                    C::A => p.qa.set_if_neq(&mut p.c, e, A(*v)).map(|a| a.0),
                    C::B => p.qb.set_if_neq(&mut p.c, e, B(*v)).map(|b| b.0),
                };
                log(Ev::SetRet { uid: u, old });
            }
            Op::Noreact(s, comp, v) =>
            {
                let e = p.h.slots[*s as usize];
                match comp
                {
                    C::A => { if let Ok(x) = p.qa.get_noreact(e) { x.0 = *v; } }
                    C::B => { if let Ok(x) = p.qb.get_noreact(e) { x.0 = *v; } }
                }
            }
            Op::Read(s, comp) =>
            {
                let e = p.h.slots[*s as usize];
                let old = match comp { C::A => p.qa.get(e).ok().map(|a| a.0), C::B => p.qb.get(e).ok().map(|b| b.0) };
                log(Ev::SetRet { uid: u, old });
            }
            Op::ResMut(r, v) => match r
            {
                R::R => { p.rr.get_mut(&mut p.c).0 = *v; }
                R::S => { p.rs.get_mut(&mut p.c).0 = *v; }
                R::T => {}
            },
            Op::ResSetIfNeq(r, v) =>
            {
                let old = match r
                {
                    R::R => p.rr.set_if_neq(&mut p.c, RR(*v)).map(|x| x.0),
                    R::S => p.rs.set_if_neq(&mut p.c, RS(*v)).map(|x| x.0),
                    R::T => None,
                };
                log(Ev::SetRet { uid: u, old });
            }
            Op::ResNoreact(r, v) => match r
            {
                R::R => { p.rr.get_noreact().0 = *v; }
                R::S => { p.rs.get_noreact().0 = *v; }
                R::T => {}
            },
            _ => {}
        }
        p.c.queue(move |_: &mut World| log(Ev::ApplyEnd(u)));
    }
    false
}

fn batch_system(In((issuer, run)): In<(u8, u32)>, mut p: PlainParams)
{
    let prog = p.h.prog.clone();
    let ops: &[Op] = if issuer == DRIVER
    {
        match &prog.steps[run as usize] { Step::Batch(v) => v, _ => &[] }
    }
    else
    {
        let f = &prog.frame_systems[(issuer - FRAME_BASE) as usize];
        if f.frames.is_empty() { &[] } else { &f.frames[(run as usize).min(f.frames.len() - 1)] }
    };
    interp(ops, issuer, run, &mut p);
}

//-------------------------------------------------------------------------------------------------------------------
// Direct world operations

pub fn exec_wop(world: &mut World, op: &WOp, u: u32)
{
    let slot = |world: &World, s: Slot| world.resource::<H>().slots[s as usize];
    match op
    {
        WOp::Spawn(s, a, b) =>
        {
            let cur = slot(world, *s);
            if world.get_entity(cur).is_ok() { return; }
            let e = world.spawn(Tracked).id();
            { let mut h = world.resource_mut::<H>(); h.slots[*s as usize] = e; h.known.push(e); }
            log(Ev::Spawned { slot: *s, e: e.to_bits() });
            // initial components are inserted without reactions (plain insert of the wrapper is not public; use react)
            let (a, b) = (*a, *b);
            if a.is_some() || b.is_some()
            {
                world.react(|rc| { if let Some(v) = a { rc.insert(e, A(v)); } if let Some(v) = b { rc.insert(e, B(v)); } });
            }
        }
        WOp::Despawn(s) => { let e = slot(world, *s); world.despawn(e); }
        WOp::DespawnRec(s) => { let e = slot(world, *s); if let Ok(em) = world.get_entity_mut(e) { em.despawn_recursive(); } }
        WOp::Remove(s, c) =>
        {
            let e = slot(world, *s);
            if let Ok(mut em) = world.get_entity_mut(e)
            {
                match c { C::A => { em.remove::<React<A>>(); } C::B => { em.remove::<React<B>>(); } }
            }
        }
        WOp::TriggerMutation(s, c) =>
        {
            let e = slot(world, *s);
            match c { C::A => React::<A>::trigger_mutation(e, world), C::B => React::<B>::trigger_mutation(e, world) }
        }
        WOp::Insert(s, c, v) =>
        {
            let e = slot(world, *s);
            let v = *v;
            match c { C::A => world.react(|rc| rc.insert(e, A(v))), C::B => world.react(|rc| rc.insert(e, B(v))) }
        }
        WOp::Gc =>
        {
            garbage_collect_entities(world);
            let (dropped, kept) = { let mut h = world.resource_mut::<H>(); (std::mem::take(&mut h.bulk_dropped), std::mem::take(&mut h.bulk_kept)) };
            if !dropped.is_empty() || !kept.is_empty()
            {
                let survivors = dropped.iter().filter(|e| world.get_entity(**e).is_ok()).count() as u32;
                let lost = kept.iter().filter(|(e, _)| world.get_entity(*e).is_err()).count() as u32;
                log(Ev::Bulk { uid: u, released: dropped.len() as u32, survivors, held: kept.len() as u32, lost });
                // the held clones go now; their entities are collected by the following collection
                let ents: Vec<Entity> = kept.iter().map(|(e, _)| *e).collect();
                drop(kept);
                world.resource_mut::<H>().bulk_dropped.extend(ents);
            }
        }
        WOp::Poll => schedule_removal_and_despawn_reactors(world),
        WOp::Flush => world.flush(),
        WOp::KillInst(i) => { if let Some(sc) = world.resource::<H>().insts[*i as usize] { world.despawn(*sc); } }
        WOp::RcScratch(variant, hold) =>
        {
            let sig = match variant % 4
            {
                0 => spawn_rc_system_command(world, || {}),
                1 => spawn_rc_system_command_from(world, SystemCommandCallback::new(|| {})),
                2 => spawn_rc_system(world, |In(_): In<u32>| {}),
                _ => spawn_rc_system_from(world, CallbackSystem::<In<u32>, ()>::new(|In(_): In<u32>| {})),
            };
            let e = sig.entity();
            let kept = hold.then(|| sig.clone());
            drop(sig);
            garbage_collect_entities(world);
            world.flush();
            let mid = world.get_entity(e).is_ok();
            drop(kept);
            garbage_collect_entities(world);
            world.flush();
            let after = world.get_entity(e).is_ok();
            log(Ev::RcScratch { uid: u, mid, after });
        }
        WOp::ReactorBulk(n, mode) if *mode >= 2 =>
        {
            // "strip" variants: the watched entity loses all its components (`clear()` / `retain::<()>()`) -- the library's
            // private despawn tracker with them -- while it lives, and is really despawned afterwards. The reactors are
            // outside the instance tables, so their runs are hidden from the trace (the generator puts a collection and a poll
            // in front: nothing else is pending) and counted here.
            use std::sync::atomic::{AtomicU32, Ordering};
            #[cfg(ukoehb_bevy_cobweb_verif)]
            bevy_cobweb::verif::set_runner_hook(None);
            let before = world.entities().len();
            let runs = Arc::new(AtomicU32::new(0));
            let scratch = world.spawn_empty().id();
            let mut scs: Vec<SystemCommand> = Vec::new();
            if mode % 2 == 0
            {
                for _ in 0..*n { let r = runs.clone(); scs.push(world.spawn_system_command(move || { r.fetch_add(1, Ordering::Relaxed); })); }
                world.react(|rc| { for sc in &scs { rc.with(despawn(scratch), *sc, ReactorMode::Cleanup); } });
            }
            else
            {
                world.react(|rc| { for _ in 0..*n { let r = runs.clone(); let t = rc.once(despawn(scratch), move || { r.fetch_add(1, Ordering::Relaxed); }); scs.push(SystemCommand::from(t)); } });
            }
            if u % 2 == 0 { world.entity_mut(scratch).clear(); } else { world.entity_mut(scratch).retain::<()>(); }
            schedule_removal_and_despawn_reactors(world);
            let early = runs.load(Ordering::Relaxed);
            world.despawn(scratch);
            schedule_removal_and_despawn_reactors(world);
            garbage_collect_entities(world);
            world.flush();
            let leaked = scs.iter().filter(|sc| world.get_entity(***sc).is_ok()).count() as u32;
            let extra = world.entities().len().saturating_sub(before);
            for sc in &scs { if world.get_entity(**sc).is_ok() { world.despawn(**sc); } }
            #[cfg(ukoehb_bevy_cobweb_verif)]
            bevy_cobweb::verif::set_runner_hook(Some(runner_hook));
            let _ = early;
            log(Ev::ReactorBulk { uid: u, n: *n as u32, leaked: leaked.max(extra), runs: runs.load(Ordering::Relaxed) });
        }
        WOp::ReactorBulk(n, mode) =>
        {
            let scratch = world.spawn_empty().id();
            let scs: Vec<SystemCommand> = (0..*n).map(|_| world.spawn_system_command(|| {})).collect();
            if mode % 2 == 0
            {
                world.react(|rc| { for sc in &scs { rc.with(entity_event::<X>(scratch), *sc, ReactorMode::Cleanup); } });
                world.despawn(scratch);
            }
            else
            {
                let tokens: Vec<RevokeToken> = world.react(|rc| scs.iter().filter_map(|sc| rc.with(entity_event::<X>(scratch), *sc, ReactorMode::Revokable)).collect());
                world.react(|rc| { for t in tokens { rc.revoke(t); } });
            }
            garbage_collect_entities(world);
            world.flush();
            let leaked = scs.iter().filter(|sc| world.get_entity(***sc).is_ok()).count() as u32;
            if world.get_entity(scratch).is_ok() { world.despawn(scratch); }
            log(Ev::ReactorBulk { uid: u, n: *n as u32, leaked, runs: 0 });
        }
        WOp::DropInstSig(i) => { let sig = world.resource_mut::<H>().inst_sigs.get_mut(*i as usize).and_then(|s| s.take()); drop(sig); }
        WOp::SysEvent(i, p) =>
        {
            if let Some(sc) = world.resource::<H>().insts[*i as usize]
            {
                match p { P::X => world.send_system_event(sc, X(u, None)), P::Y => world.send_system_event(sc, Y(u, None)) }
            }
        }
        WOp::Broadcast(p) => match p { P::X => world.broadcast(X(u, None)), P::Y => world.broadcast(Y(u, None)) },
        WOp::EntityEvent(s, p) =>
        {
            let e = slot(world, *s);
            match p { P::X => world.entity_event(e, X(u, None)), P::Y => world.entity_event(e, Y(u, None)) }
        }
        WOp::TriggerRes(r) => match r
        {
            R::R => world.trigger_resource_mutation::<RR>(),
            R::S => world.trigger_resource_mutation::<RS>(),
            // (documented to panic when the resource does not exist: only called while it does)
            R::T => { if world.contains_react_resource::<RT>() { world.trigger_resource_mutation::<RT>(); } }
        },
        WOp::Run(i) =>
        {
            if let Some(sc) = world.resource::<H>().insts[*i as usize]
            {
                use bevy::ecs::world::Command;
                sc.apply(world);
            }
        }
        WOp::Reparent(child, parent) =>
        {
            let (c, p) = (slot(world, *child), slot(world, *parent));
            if c != p && world.get_entity(c).is_ok() && world.get_entity(p).is_ok() { world.entity_mut(p).add_child(c); }
        }
        WOp::SigPrepare(k, s) =>
        {
            let e = slot(world, *s);
            let k = *k as usize;
            if world.resource::<H>().sig_ent[k].is_some() { return; }
            let sig = world.resource::<AutoDespawner>().prepare(e);
            let mut h = world.resource_mut::<H>();
            h.sig_ent[k] = Some(e);
            h.sigs[k].push(sig);
        }
        WOp::SigClone(k) =>
        {
            let mut h = world.resource_mut::<H>();
            let k = *k as usize;
            if let Some(s) = h.sigs[k].last().cloned() { h.sigs[k].push(s); }
        }
        WOp::SigDrop(k) =>
        {
            let popped = world.resource_mut::<H>().sigs[*k as usize].pop();
            drop(popped);
        }
        WOp::SigDropUnwind(k) =>
        {
            let popped = world.resource_mut::<H>().sigs[*k as usize].pop();
            if let Some(sig) = popped
            {
                let _ = catch_unwind(AssertUnwindSafe(move || { let _guard = sig; panic!("unwinding with a signal clone on the stack"); }));
            }
        }
        WOp::SigMoveInto(k, s) =>
        {
            let e = slot(world, *s);
            if world.get_entity(e).is_err() { return; }
            let Some(sig) = world.resource_mut::<H>().sigs[*k as usize].pop() else { return };
            let mut em = world.entity_mut(e);
            if let Some(mut h) = em.get_mut::<Holder>() { h.0.push(sig); } else { em.insert(Holder(vec![sig])); }
        }
        WOp::TakeStorage(i) =>
        {
            #[cfg(ukoehb_bevy_cobweb_verif)]
            if let Some(sc) = world.resource::<H>().insts[*i as usize] { bevy_cobweb::verif::take_storage(world, sc); }
            #[cfg(not(ukoehb_bevy_cobweb_verif))]
            let _ = i;
        }
        WOp::Syscall(kind, key, input) => crate::sysfam::world_syscall(world, *kind, *key, *input, u),
        WOp::SpawnSys(k, key) => crate::sysfam::spawn_sys(world, *k, *key),
        WOp::KillSys(k) => crate::sysfam::kill_sys(world, *k),
        WOp::ClearSys(k) => crate::sysfam::clear_sys(world, *k),
        WOp::RevokeNamed(n, key) => crate::sysfam::revoke_named(world, *n, *key),
        WOp::SpawnSysRc(k, key) => crate::sysfam::spawn_sys_rc(world, *k, *key),
        WOp::DropSysRc(k) => { let s = world.resource_mut::<H>().sys_sigs[*k as usize % 4].take(); drop(s); }
        WOp::InsertSys(k, s, key) => { let e = slot(world, *s); crate::sysfam::insert_sys(world, *k, e, *key); }
        WOp::SigBulk(n, m) =>
        {
            let desp = world.resource::<AutoDespawner>().clone();
            let mut dropped = Vec::new();
            let mut kept = Vec::new();
            let mut sigs = Vec::new();
            for i in 0..*n
            {
                let e = world.spawn_empty().id();
                let sig = desp.prepare(e);
                if *m > 0 && i % (*m as u16) == 0 { kept.push((e, sig.clone())); } else { dropped.push(e); }
                sigs.push(sig);
            }
            // all first clones go at once, newest first
            while let Some(s) = sigs.pop() { drop(s); }
            let mut h = world.resource_mut::<H>();
            h.bulk_dropped.extend(dropped);
            h.bulk_kept.extend(kept);
        }
        WOp::Acc(kind, s, c, v) =>
        {
            let e = slot(world, *s);
            match c { C::A => exec_acc::<A>(world, *kind, e, *v, u), C::B => exec_acc::<B>(world, *kind, e, *v, u) }
        }
        WOp::ResAcc(kind, r, v) => match r { R::R => exec_res_acc::<RR>(world, *kind, *v, u), R::S => exec_res_acc::<RS>(world, *kind, *v, u), R::T => exec_res_acc::<RT>(world, *kind, *v, u) },
        WOp::Move(from, to, c) =>
        {
            let (f, t) = (slot(world, *from), slot(world, *to));
            match c { C::A => exec_move::<A>(world, f, t), C::B => exec_move::<B>(world, f, t) }
        }
    }
}

//-------------------------------------------------------------------------------------------------------------------
// Accessor surface (C14): every accessor is called from a one-shot system owning exactly the parameters it needs

fn acc_q_get_mut<T: CompVal>(In((e, v)): In<(Entity, u8)>, mut c: Commands, mut q: Query<&mut React<T>>)
{
    if let Ok(mut r) = q.get_mut(e) { *r.get_mut(&mut c) = T::mk(v); }
}
fn acc_q_set_if_neq<T: CompVal>(In((e, v, u)): In<(Entity, u8, u32)>, mut c: Commands, mut q: Query<&mut React<T>>)
{
    let old = match q.get_mut(e) { Ok(mut r) => (*r).set_if_neq(&mut c, T::mk(v)).map(|x| x.v()), Err(_) => None };
    log(Ev::SetRet { uid: u, old });
}
fn acc_q_noreact<T: CompVal>(In((e, v)): In<(Entity, u8)>, mut q: Query<&mut React<T>>)
{
    if let Ok(mut r) = q.get_mut(e) { *r.get_noreact() = T::mk(v); }
}
fn acc_q_read<T: CompVal>(In((e, u)): In<(Entity, u32)>, q: Query<&React<T>>)
{
    // through `get` and through `Deref`
    let old = q.get(e).ok().map(|r| { let a = r.get().v(); let b = (**r).v(); if a == b { a } else { 255 } });
    log(Ev::SetRet { uid: u, old });
}
fn acc_ro_read<T: CompVal>(In((e, u)): In<(Entity, u32)>, r: Reactive<T>)
{
    log(Ev::SetRet { uid: u, old: r.get(e).ok().map(|x| x.v()) });
}
fn acc_single_mut<T: CompVal>(In((v, u)): In<(u8, u32)>, mut c: Commands, mut r: ReactiveMut<T>)
{
    let (e, x) = r.single_mut(&mut c);
    let old = x.v();
    *x = T::mk(v);
    log(Ev::Single { uid: u, e: e.to_bits(), old: Some(old) });
}
fn acc_single_noreact<T: CompVal>(In((v, u)): In<(u8, u32)>, mut r: ReactiveMut<T>)
{
    let (e, x) = r.single_noreact();
    let old = x.v();
    *x = T::mk(v);
    log(Ev::Single { uid: u, e: e.to_bits(), old: Some(old) });
}
fn acc_single_set_if_neq<T: CompVal>(In((v, u)): In<(u8, u32)>, mut c: Commands, mut r: ReactiveMut<T>)
{
    let (e, old) = r.set_single_if_not_eq(&mut c, T::mk(v));
    log(Ev::Single { uid: u, e: e.to_bits(), old: old.map(|x| x.v()) });
}
fn acc_single_read<T: CompVal>(In(u): In<u32>, r: ReactiveMut<T>)
{
    let (e, x) = r.single();
    log(Ev::Single { uid: u, e: e.to_bits(), old: Some(x.v()) });
}
fn acc_ro_single<T: CompVal>(In(u): In<u32>, r: Reactive<T>)
{
    let (e, x) = r.single();
    log(Ev::Single { uid: u, e: e.to_bits(), old: Some(x.v()) });
}

fn exec_acc<T: CompVal>(world: &mut World, kind: AccKind, e: Entity, v: u8, u: u32)
{
    let single = matches!(kind, AccKind::SingleMut | AccKind::SingleNoreact | AccKind::SingleSetIfNeq | AccKind::SingleRead | AccKind::RoSingle);
    if single
    {
        // the `single*` accessors panic unless exactly one entity has the component (documented): only call them then
        let n = world.query::<&React<T>>().iter(world).count();
        log(Ev::Kept { uid: u, n: n.min(255) as u8 });
        if n != 1 { return; }
    }
    match kind
    {
        AccKind::QGetMut => world.syscall((e, v), acc_q_get_mut::<T>),
        AccKind::QSetIfNeq => world.syscall((e, v, u), acc_q_set_if_neq::<T>),
        AccKind::QNoreact => world.syscall((e, v), acc_q_noreact::<T>),
        AccKind::QRead => world.syscall((e, u), acc_q_read::<T>),
        AccKind::RoRead => world.syscall((e, u), acc_ro_read::<T>),
        AccKind::SingleMut => world.syscall((v, u), acc_single_mut::<T>),
        AccKind::SingleNoreact => world.syscall((v, u), acc_single_noreact::<T>),
        AccKind::SingleSetIfNeq => world.syscall((v, u), acc_single_set_if_neq::<T>),
        AccKind::SingleRead => world.syscall(u, acc_single_read::<T>),
        AccKind::RoSingle => world.syscall(u, acc_ro_single::<T>),
    }
}

fn res_param_read<T: ResVal>(In(u): In<u32>, r: ReactRes<T>)
{
    log(Ev::SetRet { uid: u, old: Some(r.v()) });
}

fn exec_res_acc<T: ResVal + FromWorld>(world: &mut World, kind: ResAccKind, v: u8, u: u32)
{
    let present = world.contains_react_resource::<T>();
    match kind
    {
        // (documented to panic when the resource is missing)
        ResAccKind::WorldNoreact => { if present { *world.react_resource_mut_noreact::<T>() = T::mk(v); } }
        ResAccKind::WorldGetNoreact => { if let Some(r) = world.get_react_resource_noreact::<T>() { *r = T::mk(v); } }
        ResAccKind::WorldRead =>
        {
            let b = world.get_react_resource::<T>().map(|r| r.v());
            let a = if present { Some(world.react_resource::<T>().v()) } else { None };
            log(Ev::SetRet { uid: u, old: if a == b { a } else { Some(255) } });
        }
        ResAccKind::ParamRead => { if present { world.syscall(u, res_param_read::<T>) } else { log(Ev::SetRet { uid: u, old: None }) } }
        ResAccKind::WorldInsert => world.insert_react_resource(T::mk(v)),
        ResAccKind::CmdInsert => { world.commands().insert_react_resource(T::mk(v)); world.flush(); }
        ResAccKind::Init =>
        {
            if v % 2 == 0 { world.init_react_resource::<T>(); }
            else { world.commands().init_react_resource::<T>(); world.flush(); }
        }
        ResAccKind::GetOrInsertWith =>
        {
            let got = world.get_react_resource_or_insert_with(|| T::mk(v)).v();
            log(Ev::SetRet { uid: u, old: Some(got) });
        }
        ResAccKind::WorldRemove => { let old = world.remove_react_resource::<T>().map(|r| r.v()); log(Ev::SetRet { uid: u, old }); }
        ResAccKind::CmdRemove => { world.commands().remove_react_resource::<T>(); world.flush(); }
    }
}

fn exec_move<T: CompVal>(world: &mut World, from: Entity, to: Entity)
{
    if from == to || world.get_entity(to).is_err() { return; }
    let Ok(mut em) = world.get_entity_mut(from) else { return };
    let Some(r) = em.take::<React<T>>() else { return };
    let val = r.take();
    world.react(|rc| rc.insert(to, val));
}

//-------------------------------------------------------------------------------------------------------------------
// Frame scenario plumbing

#[derive(SystemSet, Debug, Clone, Copy, PartialEq, Eq, Hash)]
struct FrameSet(u8);

fn frame_system(sys: u8) -> impl FnMut(&mut World) + Send + Sync + 'static
{
    let mut frame = 0u32;
    move |world: &mut World|
    {
        log(Ev::FrameBegin { sys, frame });
        world.syscall((FRAME_BASE + sys, frame), batch_system);
        log(Ev::FrameEnd { sys, frame });
        frame += 1;
    }
}

//-------------------------------------------------------------------------------------------------------------------
// Post-step observation

fn post_obs(world: &mut World) -> Post
{
    let mut post = Post::default();
    let (insts, slots, known, base, sig_ent, nslots) =
    {
        let h = world.resource::<H>();
        (h.insts.clone(), h.slots.clone(), h.known.clone(), h.base_entities, h.sig_ent.clone(), h.slots.len())
    };
    post.insts = insts.iter().map(|i| i.map(|sc| world.get_entity(*sc).is_ok())).collect();
    for e in slots.iter()
    {
        let alive = world.get_entity(*e).is_ok();
        let a = world.get::<React<A>>(*e).map(|x| x.0);
        let b = world.get::<React<B>>(*e).map(|x| x.0);
        post.slots.push((alive, a, b));
    }
    post.res = [world.react_resource::<RR>().0, world.react_resource::<RS>().0];
    post.res_t = world.get_react_resource::<RT>().map(|r| r.0);
    let mut uniq: Vec<Entity> = known.clone();
    uniq.sort();
    uniq.dedup();
    let known_alive = uniq.iter().filter(|e| world.get_entity(**e).is_ok()).count() as i64;
    post.excess_entities = world.entities().len() as i64 - known_alive - base;
    post.sig_alive = sig_ent.iter().map(|e| e.map(|e| world.get_entity(e).is_ok())).collect();
    #[cfg(ukoehb_bevy_cobweb_verif)]
    {
        for k in 0..2u8
        {
            for s in 0..nslots
            {
                let e = slots[s];
                let has = if k == 0 { bevy_cobweb::verif::has_entity_world_local::<T0>(world, e) } else { bevy_cobweb::verif::has_entity_world_local::<T1>(world, e) };
                post.ewr_local.push(has);
            }
        }
        let s = bevy_cobweb::verif::snapshot(world);
        let sysev = bevy_cobweb::verif::count_system_event_data::<X>(world) + bevy_cobweb::verif::count_system_event_data::<Y>(world);
        post.snap = Some(obs::Snap {
            counter: s.counter,
            buffered: s.buffered,
            trackers: s.trackers,
            storages_without_callback: s.storages_without_callback,
            data_entities: s.data_entities,
            sysevent_data: sysev,
            tw_entries: s.tables.insertion + s.tables.mutation + s.tables.removal + s.tables.any_entity_event + s.tables.resource + s.tables.broadcast,
            entity_entries: s.tables.entity_scoped,
            despawn_entries: s.tables.despawn,
            dead_handles: s.dead_handles,
        });
    }
    #[cfg(not(ukoehb_bevy_cobweb_verif))]
    { let _ = nslots; }
    post
}

#[cfg(ukoehb_bevy_cobweb_verif)]
fn runner_hook(ev: bevy_cobweb::verif::RunnerEv)
{
    use bevy_cobweb::verif::RunnerEv::*;
    let (k, e) = match ev
    {
        Enter(e, idx) => (if idx == 0 { obs::RK_ENTER_ROOT } else { obs::RK_ENTER }, e),
        Run(e) => (obs::RK_RUN, e),
        Postpone(e) => (obs::RK_POSTPONE, e),
        Abort(e) => (obs::RK_ABORT, e),
        Discard(e) => (obs::RK_DISCARD, e),
        RootExit(e) => (obs::RK_ROOT_EXIT, e),
        Exit(e) => (obs::RK_EXIT, e),
        GcTake(e) => { log(Ev::GcTake(e.to_bits())); return; }
    };
    log(Ev::Runner(k, e.to_bits()));
}

//-------------------------------------------------------------------------------------------------------------------
// Bystander world: a second App in the same process. Entity indices overlap with the world under test on purpose.

struct BX(u32);

#[derive(Resource, Default)]
struct ByLog { reactor_runs: u32, last: u32 }

struct Bystander
{
    app: App,
    ents: Vec<Entity>,
    /// signal per entity (None = dropped)
    sigs: Vec<Option<AutoDespawnSignal>>,
    /// entities whose signal was dropped but whose world has not collected since
    released: Vec<usize>,
    sent: u32,
    tick: u32,
}

impl Bystander
{
    fn new(n: usize) -> Self
    {
        let mut app = App::new();
        app.add_plugins(ReactPlugin);
        app.init_resource::<ByLog>();
        let world = app.world_mut();
        let ents: Vec<Entity> = (0..n).map(|_| world.spawn_empty().id()).collect();
        world.react(|rc| { rc.on_persistent(broadcast::<BX>(), |ev: BroadcastEvent<BX>, mut l: ResMut<ByLog>| { l.reactor_runs += 1; l.last = ev.try_read().map(|x| x.0).unwrap_or(u32::MAX); }); });
        let sigs = ents.iter().map(|e| Some(world.resource::<AutoDespawner>().prepare(*e))).collect();
        Bystander { app, ents, sigs, released: Vec::new(), sent: 0, tick: 0 }
    }

    /// One action per driver step of the world under test, then the invariants.
    fn step(&mut self)
    {
        self.tick += 1;
        match self.tick % 4
        {
            0 => { if let Some(i) = self.sigs.iter().position(|s| s.is_some()) { self.sigs[i] = None; self.released.push(i); } }
            1 => { garbage_collect_entities(self.app.world_mut()); self.released.clear(); }
            2 => { self.sent += 1; let id = self.sent; self.app.world_mut().broadcast(BX(id)); }
            _ => { self.app.update(); self.released.clear(); }
        }
        let world = self.app.world();
        for (i, e) in self.ents.iter().enumerate()
        {
            let alive = world.get_entity(*e).is_ok();
            let held = self.sigs[i].is_some();
            let pending = self.released.contains(&i);
            if held && !alive { log(Ev::Bystander(format!("C10 premature-autodespawn: entity {i} of an independent world was despawned while its signal is held"))); }
            if !held && !pending && alive { log(Ev::Bystander(format!("C10 autodespawn-leak: entity {i} of an independent world survived its world's garbage collection after its signal was dropped"))); }
        }
        let l = world.resource::<ByLog>();
        if l.reactor_runs != self.sent || (self.sent > 0 && l.last != self.sent)
        {
            log(Ev::Bystander(format!("C01 unexpected-reaction: the reactor of an independent world ran {} times for {} broadcasts sent there (last payload seen {})", l.reactor_runs, self.sent, l.last)));
        }
    }
}

//-------------------------------------------------------------------------------------------------------------------
// Running a program

pub const HOOKS: bool = cfg!(ukoehb_bevy_cobweb_verif);

/// Runs the program on a fresh `App` and returns the observed trace. Panics are caught and recorded.
pub fn run_program(prog: &Arc<Program>) -> Vec<Ev>
{
    obs::clear();
    obs::set_quiet(true);
    let r = catch_unwind(AssertUnwindSafe(|| run_inner(prog)));
    obs::set_quiet(false);
    if let Err(p) = r
    {
        let msg = p.downcast_ref::<String>().cloned().or_else(|| p.downcast_ref::<&str>().map(|s| s.to_string())).unwrap_or_else(|| "panic".into());
        log(Ev::Panic(msg));
    }
    obs::take()
}

fn run_inner(prog: &Arc<Program>)
{
    let mut app = App::new();
    if !prog.plugin_last { app.add_plugins(ReactPlugin); }
    let ninst = prog.insts.len();
    app.world_mut().insert_resource(TickProbe);
    app.world_mut().insert_react_resource(RR(0));
    app.world_mut().insert_react_resource(RS(0));
    app.world_mut().insert_react_resource(RT(0));
    // slots first, so that a world reactor's starting triggers can name them
    let mut slot_ents: Vec<Entity> = Vec::new();
    for (s, (a, b)) in prog.slots.iter().enumerate()
    {
        let world = app.world_mut();
        let e = world.spawn(Tracked).id();
        slot_ents.push(e);
        log(Ev::Spawned { slot: s as u8, e: e.to_bits() });
        let (a, b) = (*a, *b);
        world.react(|rc| { if let Some(v) = a { rc.insert(e, A(v)); } if let Some(v) = b { rc.insert(e, B(v)); } });
    }
    // world reactors are added while building the app
    for (i, def) in prog.insts.iter().enumerate()
    {
        match def.origin
        {
            Origin::World(0) => { app.add_world_reactor(W0(i as u8)); }
            Origin::World(_) =>
            {
                let tmp = H::for_resolve(prog.clone(), slot_ents.clone());
                let b = tmp.bundle(&prog.wr_starting);
                app.add_world_reactor_with(W1(i as u8), b);
            }
            Origin::EntityWorld(0) => { app.add_entity_reactor(T0(i as u8)); }
            Origin::EntityWorld(_) => { app.add_entity_reactor(T1(i as u8)); }
            Origin::App =>
            {
                let tmp = H::for_resolve(prog.clone(), slot_ents.clone());
                let trigs = prog.app_reactors.iter().find(|(x, _)| *x as usize == i).map(|(_, t)| t.clone()).unwrap_or_default();
                let b = tmp.bundle(&trigs);
                // every instance is the same closure type built at one source location: registrations of the same function
                match def.flavour
                {
                    Flavour::FallibleDrop => { app.add_reactor(b, plain_actor::<DropErr>(i as u8)); }
                    _ => { app.add_reactor(b, plain_actor::<()>(i as u8)); }
                }
            }
            _ => {}
        }
    }
    if prog.plugin_last { app.add_plugins(ReactPlugin); }
    // frame systems, in the program's total order
    if !prog.frame_systems.is_empty()
    {
        app.add_systems(Last, (|| log(Ev::LastPollBegin)).before(AutoDespawnSet).in_set(FrameSet(200)));
        app.add_systems(Last, (|| log(Ev::LastPollEnd)).after(schedule_removal_and_despawn_reactors).in_set(FrameSet(201)));
        let mut prev: [Option<u8>; 4] = [None; 4];
        for (i, f) in prog.frame_systems.iter().enumerate()
        {
            let i = i as u8;
            let place = f.place.min(3) as usize;
            macro_rules! add { ($sched:expr, $cfg:expr) => {{
                let c = $cfg;
                let c = if let Some(p) = prev[place] { c.after(FrameSet(p)) } else { c };
                app.add_systems($sched, c);
            }}; }
            match place
            {
                0 => add!(Update, frame_system(i).in_set(FrameSet(i))),
                1 => add!(PostUpdate, frame_system(i).in_set(FrameSet(i))),
                2 => add!(Last, frame_system(i).in_set(FrameSet(i)).before(FrameSet(200))),
                _ => add!(Last, frame_system(i).in_set(FrameSet(i)).after(FrameSet(201))),
            }
            prev[place] = Some(i);
        }
    }
    let world = app.world_mut();
    let before = world.entities().len() as i64 - slot_ents.len() as i64;
    let mut h = H {
        prog: prog.clone(),
        slots: Vec::new(),
        insts: vec![None; ninst],
        tokens: vec![None; ninst],
        inst_sigs: (0..ninst).map(|_| None).collect(),
        created: vec![false; ninst],
        runs: vec![0; ninst],
        total_runs: 0,
        sigs: (0..4).map(|_| Vec::new()).collect(),
        sig_ent: vec![None; 4],
        known: Vec::new(),
        wr_keys: [HashSet::new(), HashSet::new()],
        ewr_members: [HashMap::new(), HashMap::new()],
        base_entities: 0,
        callee_seq: 0,
        callee_calls: [0; 3],
        sys: vec![None; 4],
        sys_sigs: (0..4).map(|_| None).collect(),
        bulk_dropped: Vec::new(),
        bulk_kept: Vec::new(),
    };
    // world reactor system entities exist already (counted in `before`); learn nothing about them: they are framework-owned
    for e in &slot_ents { h.slots.push(*e); h.known.push(*e); }
    { let t = H::for_resolve(prog.clone(), slot_ents.clone()); for tr in prog.wr_starting.iter().take(MAX_BUNDLE) { h.wr_keys[1].insert(t.resolve(tr)); } }
    // pre-spawned actors
    for (i, def) in prog.insts.iter().enumerate()
    {
        if def.origin != Origin::Pre { continue; }
        // the three equivalent entry points take turns: `Commands::spawn_system_command`, `World::spawn_system_command`,
        // and `spawn_system_command_from(SystemCommandCallback::new(..))`
        if def.rc
        {
            // ref-counted system commands: `spawn_rc_system_command` / `spawn_rc_system_command_from` take turns
            let iu = i as u8;
            let sig = match (i % 2, def.flavour)
            {
                (0, Flavour::Plain) => spawn_rc_system_command(world, plain_actor::<()>(iu)),
                (0, Flavour::Exclusive) => spawn_rc_system_command(world, excl_actor::<()>(iu)),
                (0, Flavour::FallibleDrop) => spawn_rc_system_command(world, plain_actor::<DropErr>(iu)),
                (_, Flavour::Plain) => spawn_rc_system_command_from(world, SystemCommandCallback::new(plain_actor::<()>(iu))),
                (_, Flavour::FallibleDrop) => spawn_rc_system_command_from(world, SystemCommandCallback::new(plain_actor::<DropErr>(iu))),
                (_, Flavour::FallibleWarn) => spawn_rc_system_command_from(world, SystemCommandCallback::new(plain_actor::<WarnErr>(iu))),
                (_, Flavour::Exclusive) => spawn_rc_system_command_from(world, SystemCommandCallback::new(excl_actor::<()>(iu))),
                (_, Flavour::ExclusiveWarn) => spawn_rc_system_command_from(world, SystemCommandCallback::new(excl_actor::<WarnErr>(iu))),
                (_, Flavour::InParamSet) => spawn_rc_system_command_from(world, SystemCommandCallback::new(ps_actor(iu))),
                (_, Flavour::DeferredW) => spawn_rc_system_command_from(world, SystemCommandCallback::new(dw_actor(iu))),
                (_, Flavour::CustomCb) => spawn_rc_system_command(world, plain_actor::<()>(iu)),
            };
            let sc = SystemCommand(sig.entity());
            h.inst_sigs[i] = Some(sig);
            h.insts[i] = Some(sc);
            h.known.push(*sc);
            log(Ev::InstEntity { inst: iu, e: sc.to_bits() });
            continue;
        }
        let sc = match (i % 3, def.flavour)
        {
            (1, Flavour::Plain) => world.spawn_system_command(plain_actor::<()>(i as u8)),
            (1, Flavour::Exclusive) => world.spawn_system_command(excl_actor::<()>(i as u8)),
            (2, Flavour::Plain) => world.spawn_system_command_from(SystemCommandCallback::new(plain_actor::<()>(i as u8))),
            (2, Flavour::FallibleDrop) => { let mut c = world.commands(); c.spawn_system_command_from(SystemCommandCallback::new(plain_actor::<DropErr>(i as u8))) }
            (2, Flavour::Exclusive) => spawn_system_command_from(world, SystemCommandCallback::new(excl_actor::<()>(i as u8))),
            _ => { let mut c = world.commands(); spawn_actor_cmd(&mut c, i as u8, def.flavour) }
        };
        world.flush();
        h.insts[i] = Some(sc);
        h.known.push(*sc);
        log(Ev::InstEntity { inst: i as u8, e: sc.to_bits() });
    }
    h.base_entities = before; // world-reactor systems and anything the plugin spawned
    world.insert_resource(h);
    crate::sysfam::set_callee_dw(prog.callee_dw);
    #[cfg(ukoehb_bevy_cobweb_verif)]
    bevy_cobweb::verif::set_runner_hook(Some(runner_hook));

    let mut bystander = if prog.bystander { Some(Bystander::new(prog.slots.len() + 3)) } else { None };
    for (i, step) in prog.steps.iter().enumerate()
    {
        log(Ev::StepBegin(i));
        match step
        {
            Step::Batch(_) => { app.world_mut().syscall((DRIVER, i as u32), batch_system); }
            Step::Direct(w) =>
            {
                let u = uid(DRIVER, i as u32, 0);
                log(Ev::Now(u));
                exec_wop(app.world_mut(), w, u);
                log(Ev::NowEnd(u));
            }
            Step::Update => { app.update(); }
            Step::AppSetup => { app.setup_auto_despawn(); }
        }
        log(Ev::StepEnd(i));
        if let Some(b) = bystander.as_mut()
        {
            // the runner hook is process-wide: the other world's reaction trees are not part of the observed trace
            #[cfg(ukoehb_bevy_cobweb_verif)]
            bevy_cobweb::verif::set_runner_hook(None);
            b.step();
            #[cfg(ukoehb_bevy_cobweb_verif)]
            bevy_cobweb::verif::set_runner_hook(Some(runner_hook));
        }
        let post = post_obs(app.world_mut());
        log(Ev::Post(Box::new(post)));
    }
    #[cfg(ukoehb_bevy_cobweb_verif)]
    bevy_cobweb::verif::set_runner_hook(None);
    // drop the world inside the run so that late drops are attributed to it, then discard them
    let n = obs::len();
    drop(app);
    let mut t = obs::take();
    t.truncate(n);
    for e in t { log(e); }
}
