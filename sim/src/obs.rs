//! Observations recorded while a program runs against the real code (thread-local sink).
use serde::{Deserialize, Serialize};
use std::cell::RefCell;

/// What all event readers of a system reported at the start of a run.
#[derive(Clone, Debug, Default, PartialEq, Eq, Hash, Serialize, Deserialize)]
pub struct Sample
{
    /// broadcast payload ids (X, Y)
    pub b: [Option<u32>; 2],
    /// entity event (target bits, payload id) (X, Y)
    pub e: [Option<(u64, u32)>; 2],
    /// system event payload ids taken (X, Y)
    pub s: [Option<u32>; 2],
    /// insertion / mutation / removal event entity (A, B)
    pub ins: [Option<u64>; 2],
    pub mu: [Option<u64>; 2],
    pub rem: [Option<u64>; 2],
    /// despawn event entity
    pub d: Option<u64>,
    /// a second `take()` of a system event succeeded
    pub second_take: bool,
    /// the accessors of one reader disagree with each other (`is_empty` / `try_read` / `read` / `entity` / `get_entity` / `get`)
    #[serde(default)]
    pub inconsistent: bool,
}

impl Sample
{
    pub fn is_empty(&self) -> bool { *self == Sample::default() }
    /// Number of distinct reader fields reporting something.
    pub fn count(&self) -> usize
    {
        self.b.iter().flatten().count() + self.e.iter().flatten().count() + self.s.iter().flatten().count()
            + self.ins.iter().flatten().count() + self.mu.iter().flatten().count() + self.rem.iter().flatten().count()
            + self.d.iter().count()
    }
}

#[derive(Clone, Debug, Default, PartialEq, Eq, Hash, Serialize, Deserialize)]
pub struct Snap
{
    pub counter: usize,
    pub buffered: usize,
    pub trackers: [(usize, bool); 4],
    pub storages_without_callback: usize,
    pub data_entities: usize,
    pub sysevent_data: usize,
    pub tw_entries: usize,
    pub entity_entries: usize,
    pub despawn_entries: usize,
    pub dead_handles: usize,
}

/// State observed after each driver step.
#[derive(Clone, Debug, Default, PartialEq, Eq, Hash, Serialize, Deserialize)]
pub struct Post
{
    /// per instance: None = never given an entity, Some(alive)
    pub insts: Vec<Option<bool>>,
    /// per slot: alive, A value, B value
    pub slots: Vec<(bool, Option<u8>, Option<u8>)>,
    pub res: [u8; 2],
    /// value of the removable resource `T` (None = absent)
    #[serde(default)]
    pub res_t: Option<u8>,
    /// world entity count minus entities the harness knows to be alive minus the baseline
    pub excess_entities: i64,
    /// per (ewr, slot): local data present (hooks only)
    pub ewr_local: Vec<bool>,
    /// entities of signal slots alive
    pub sig_alive: Vec<Option<bool>>,
    pub snap: Option<Snap>,
}

#[derive(Clone, Debug, PartialEq, Eq, Hash, Serialize, Deserialize)]
pub enum Ev
{
    StepBegin(usize),
    StepEnd(usize),
    /// A system body started: instance, `Local` counter, captured counter, reader sample.
    /// `chg`: the system's change-detection baseline reports a never-touched resource as changed (true only on a first run).
    Body { inst: u8, n: u32, cap: u32, s: Sample, chg: bool },
    BodyEnd { inst: u8, n: u32, err: bool },
    /// Entity world reactor body: local data of the source entity as seen (None = not available).
    EwrLocal { inst: u8, src: u64, val: Option<u32>, src_alive: bool },
    /// The marker command of op `uid` was applied.
    Apply(u32),
    /// Everything op `uid`'s commands caused has completed.
    ApplyEnd(u32),
    /// Immediate op `uid` begins / ends (driver direct steps, `Now` ops).
    Now(u32),
    NowEnd(u32),
    /// Payload dropped.
    Drop(u32),
    /// Captured state of an instance dropped.
    Canary(u8),
    Probe { uid: u32, s: Sample },
    /// Return value of `set_if_neq`: Some(old) or None.
    SetRet { uid: u32, old: Option<u8> },
    Spawned { slot: u8, e: u64 },
    InstEntity { inst: u8, e: u64 },
    /// A wrapper op was skipped or filtered (world-reactor dedupe); payload: number of triggers kept.
    Kept { uid: u32, n: u8 },
    /// Bulk auto-despawn observation at a collection: entities whose signals were all dropped before it (`released`, of which
    /// `survivors` are still alive) and entities with a clone still held (`held`, of which `lost` are gone).
    Bulk { uid: u32, released: u32, survivors: u32, held: u32, lost: u32 },
    /// does the scratch system's entity exist after the first / the second collection of the `RcScratch` op
    RcScratch { uid: u32, mid: bool, after: bool },
    /// how many of the `n` reactors of a `ReactorBulk` op still exist after the collection that followed their release
    /// (`runs`: how often they ran in total; only the variants that watch a despawn run at all)
    ReactorBulk { uid: u32, n: u32, leaked: u32, runs: u32 },
    /// A `single*` accessor ran: the entity it reported and the value it saw before writing.
    Single { uid: u32, e: u64, old: Option<u8> },
    /// syscall family: callee body, and value returned to the caller.
    SysBody { key: u8, n: u32, input: u32, chg: bool },
    SysBodyEnd { key: u8, n: u32 },
    /// a deferred buffer of a callee other than `Commands` was applied: 0 = `ParallelCommands`, 1 = a custom `Deferred<T>`
    SysPar { key: u8, n: u32, which: u8 },
    SysRet { uid: u32, out: Option<u32> },
    FrameBegin { sys: u8, frame: u32 },
    FrameEnd { sys: u8, frame: u32 },
    /// The plugin's GC + poll in `Last` is about to run / has run (frame scenario marker systems).
    LastPollBegin,
    LastPollEnd,
    Post(Box<Post>),
    /// A tracked (slot) entity was despawned right now, by whatever cause (component remove hook).
    Gone(u64),
    Panic(String),
    /// The bystander world misbehaved (message), or was observed (`ok` messages are not logged).
    Bystander(String),
    /// Runner hook events (hooks only): kind, system entity bits.
    Runner(u8, u64),
    /// the system state of some actor was created (`FromWorld` of its `Local`)
    StateCreated,
    /// (hook) a collection pass has received this entity from the channel and despawns it next
    GcTake(u64),
}

pub const RK_ENTER_ROOT: u8 = 0;
pub const RK_ENTER: u8 = 1;
pub const RK_RUN: u8 = 2;
pub const RK_POSTPONE: u8 = 3;
pub const RK_ABORT: u8 = 4;
pub const RK_DISCARD: u8 = 5;
pub const RK_ROOT_EXIT: u8 = 6;
pub const RK_EXIT: u8 = 7;

thread_local! {
    static SINK: RefCell<Vec<Ev>> = const { RefCell::new(Vec::new()) };
}

pub fn log(ev: Ev) { SINK.with(|s| s.borrow_mut().push(ev)); }
pub fn take() -> Vec<Ev> { SINK.with(|s| std::mem::take(&mut *s.borrow_mut())) }
pub fn clear() { SINK.with(|s| s.borrow_mut().clear()); }
pub fn len() -> usize { SINK.with(|s| s.borrow().len()) }

thread_local! { static QUIET: std::cell::Cell<bool> = const { std::cell::Cell::new(false) }; }
/// While set, panics on this thread are expected observations and are not printed.
pub fn set_quiet(q: bool) { QUIET.with(|c| c.set(q)); }
pub fn install_panic_hook()
{
    let default = std::panic::take_hook();
    std::panic::set_hook(Box::new(move |info| { if !QUIET.with(|c| c.get()) || std::env::var("VERBOSE_PANIC").is_ok() { default(info); } }));
}
