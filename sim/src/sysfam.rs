//! syscall family (C17): harness side and generator side. The reference-model side lives in `model.rs`.
use crate::dsl::*;
use crate::gen::{GenOps, Rng};
use crate::harness::{interp, interp_basic, PlainParams, TickProbe, H};
use bevy::ecs::world::DeferredWorld;
use crate::obs::{log, Ev};
use bevy::prelude::*;
use bevy_cobweb::prelude::*;

pub const NKEYS: u8 = 3;
pub const ST_ONCE: u8 = 3;
pub const ST_NAMED: u8 = 4;
pub const ST_SPAWNED: u8 = 10;
pub const ST_CMD: u8 = 20;
pub const ST_CMD_ONCE: u8 = 23;

/// State a call through `kind` with function key `key` (or spawned slot `key`) uses.
pub fn state_id(kind: SysKind, key: u8, cmd: bool) -> u8
{
    match kind
    {
        SysKind::Plain | SysKind::Validated => if cmd { ST_CMD + key } else { key },
        SysKind::Once | SysKind::OnceValidated => if cmd { ST_CMD_ONCE } else { ST_ONCE },
        SysKind::Named(n) | SysKind::NamedDirect(n) | SysKind::RegisterNamed(n) => ST_NAMED + n * NKEYS + key,
        SysKind::Spawned => ST_SPAWNED + key,
    }
}

thread_local! { static CALLEE_DW: std::cell::Cell<[bool; 3]> = const { std::cell::Cell::new([false; 3]) }; }
/// Which callee keys are written against a `DeferredWorld` in the program being run on this thread.
pub fn set_callee_dw(v: [bool; 3]) { CALLEE_DW.with(|c| c.set(v)); }
pub fn is_dw(key: u8) -> bool { CALLEE_DW.with(|c| c.get()[(key % NKEYS) as usize]) }

pub fn pack(state: u8, value: u32) -> u32 { ((state as u32) << 24) | (value & 0xFFFF) }

fn callee_body<const K: u8>(input: u32, p: &mut PlainParams, n: &mut u32) -> u32
{
    *n += 1;
    let state = (input >> 24) as u8;
    let value = input & 0xFFFF;
    p.h_mut().callee_seq += 1;
    let seq = p.h_mut().callee_seq;
    log(Ev::SysBody { key: K, n: *n, input, chg: p.tick.is_changed() });
    p.h_mut().callee_calls[K as usize % 3] += 1;
    let call = p.h_mut().callee_calls[K as usize % 3];
    let prog = p.h_mut().prog.clone();
    let ops = prog.callee_script(K, call);
    interp(ops, CALLEE_BASE + state, seq, p);
    log(Ev::SysBodyEnd { key: K, n: *n });
    value * 1000 + *n
}

/// A deferred buffer that is not `Commands`: applying it logs a marker (the syscall family must apply *every* buffer of the callee).
#[derive(Default)]
pub struct MarkBuf(Option<(u8, u32)>);
impl bevy::ecs::system::SystemBuffer for MarkBuf
{
    fn apply(&mut self, _: &bevy::ecs::system::SystemMeta, _: &mut World) { if let Some((key, n)) = self.0.take() { log(Ev::SysPar { key, n, which: 1 }); } }
}

/// Leaves one command in the callee's `ParallelCommands` and arms its custom buffer.
fn mark_buffers<const K: u8>(par: &ParallelCommands, buf: &mut Deferred<MarkBuf>, n: u32)
{
    par.command_scope(|mut c| c.queue(move |_: &mut World| log(Ev::SysPar { key: K, n, which: 0 })));
    buf.0 = Some((K, n));
}

fn callee<const K: u8>(In(input): In<u32>, mut p: PlainParams, par: ParallelCommands, mut buf: Deferred<MarkBuf>, mut n: Local<u32>) -> u32 { let r = callee_body::<K>(input, &mut p, &mut n); mark_buffers::<K>(&par, &mut buf, *n); r }
fn callee_cmd<const K: u8>(In(input): In<u32>, mut p: PlainParams, par: ParallelCommands, mut buf: Deferred<MarkBuf>, mut n: Local<u32>) { callee_body::<K>(input, &mut p, &mut n); mark_buffers::<K>(&par, &mut buf, *n); }

// (the `ParamSet` forms have no deferred parameter outside the set: Bevy does not report the set's `Commands` as deferred, so a
// caller that asks the system "do you have deferred buffers?" before applying them gets the wrong answer)
fn callee_ps<const K: u8>(In(input): In<u32>, mut ps: ParamSet<(PlainParams,)>, mut n: Local<u32>) -> u32 { let mut p = ps.p0(); callee_body::<K>(input, &mut p, &mut n) }
fn callee_cmd_ps<const K: u8>(In(input): In<u32>, mut ps: ParamSet<(PlainParams,)>, mut n: Local<u32>) { let mut p = ps.p0(); callee_body::<K>(input, &mut p, &mut n); }

/// The callee written against a `DeferredWorld`: everything it queues goes on the world's own command queue.
fn callee_body_dw<const K: u8>(input: u32, chg: bool, dw: &mut DeferredWorld, n: &mut u32) -> u32
{
    *n += 1;
    let state = (input >> 24) as u8;
    let value = input & 0xFFFF;
    let prog = dw.resource::<H>().prog.clone();
    let mut h = std::mem::replace(&mut *dw.resource_mut::<H>(), H::for_resolve(prog.clone(), Vec::new()));
    h.callee_seq += 1;
    let seq = h.callee_seq;
    log(Ev::SysBody { key: K, n: *n, input, chg });
    h.callee_calls[K as usize % 3] += 1;
    let call = h.callee_calls[K as usize % 3];
    let ops = prog.callee_script(K, call);
    for (idx, op) in ops.iter().enumerate()
    {
        let u = uid(CALLEE_BASE + state, seq, idx);
        let mut c = dw.commands();
        c.queue(move |_: &mut World| log(Ev::Apply(u)));
        let _ = interp_basic(op, u, &mut c, &mut h);
        c.queue(move |_: &mut World| log(Ev::ApplyEnd(u)));
    }
    *dw.resource_mut::<H>() = h;
    log(Ev::SysBodyEnd { key: K, n: *n });
    value * 1000 + *n
}

fn callee_dw<const K: u8>(In(input): In<u32>, mut ps: ParamSet<(Res<TickProbe>, DeferredWorld)>, mut n: Local<u32>) -> u32 { let chg = ps.p0().is_changed(); let mut dw = ps.p1(); callee_body_dw::<K>(input, chg, &mut dw, &mut n) }
fn callee_cmd_dw<const K: u8>(In(input): In<u32>, mut ps: ParamSet<(Res<TickProbe>, DeferredWorld)>, mut n: Local<u32>) { let chg = ps.p0().is_changed(); let mut dw = ps.p1(); callee_body_dw::<K>(input, chg, &mut dw, &mut n); }

fn sysname_of<S: 'static>(_: &S, name: u8) -> SysName { SysName::new::<S>(name) }

macro_rules! by_key { ($key:expr, |$f:ident| $body:expr) => { match ($key % NKEYS, crate::sysfam::is_dw($key)) { (0, false) => { let $f = callee::<0>; $body } (1, false) => { let $f = callee::<1>; $body } (_, false) => { let $f = callee::<2>; $body } (0, true) => { let $f = callee_dw::<0>; $body } (1, true) => { let $f = callee_dw::<1>; $body } (_, true) => { let $f = callee_dw::<2>; $body } } }; }
macro_rules! by_key_ps { ($key:expr, |$f:ident| $body:expr) => { match ($key % NKEYS, crate::sysfam::is_dw($key)) { (0, false) => { let $f = callee_ps::<0>; $body } (1, false) => { let $f = callee_ps::<1>; $body } (_, false) => { let $f = callee_ps::<2>; $body } (0, true) => { let $f = callee_dw::<0>; $body } (1, true) => { let $f = callee_dw::<1>; $body } (_, true) => { let $f = callee_dw::<2>; $body } } }; }
macro_rules! by_key_cmd_ps { ($key:expr, |$f:ident| $body:expr) => { match ($key % NKEYS, crate::sysfam::is_dw($key)) { (0, false) => { let $f = callee_cmd_ps::<0>; $body } (1, false) => { let $f = callee_cmd_ps::<1>; $body } (_, false) => { let $f = callee_cmd_ps::<2>; $body } (0, true) => { let $f = callee_cmd_dw::<0>; $body } (1, true) => { let $f = callee_cmd_dw::<1>; $body } (_, true) => { let $f = callee_cmd_dw::<2>; $body } } }; }
macro_rules! by_key_cmd { ($key:expr, |$f:ident| $body:expr) => { match ($key % NKEYS, crate::sysfam::is_dw($key)) { (0, false) => { let $f = callee_cmd::<0>; $body } (1, false) => { let $f = callee_cmd::<1>; $body } (_, false) => { let $f = callee_cmd::<2>; $body } (0, true) => { let $f = callee_cmd_dw::<0>; $body } (1, true) => { let $f = callee_cmd_dw::<1>; $body } (_, true) => { let $f = callee_cmd_dw::<2>; $body } } }; }

pub fn world_syscall(world: &mut World, kind: SysKind, key: u8, value: u32, u: u32)
{
    let input = pack(state_id(kind, key, false), value);
    let out: Option<u32> = match kind
    {
        // (two routes to the cached call: the method and the free function; `prep_fncall` needs `I: Clone`, which `In<T>` is not)
        SysKind::Plain => Some(match value % 2 { 0 => by_key!(key, |f| world.syscall(input, f)), _ => by_key!(key, |f| syscall(world, input, f)) }),
        SysKind::Validated => Some(by_key!(key, |f| world.syscall_with_validation(input, f, |_| {}))),
        SysKind::Once => Some(by_key!(key, |f| world.syscall_once(input, f))),
        SysKind::OnceValidated => Some(by_key!(key, |f| world.syscall_once_with_validation(input, f, |_| {}))),
        SysKind::Named(n) => Some(by_key!(key, |f| named_syscall(world, n, input, f))),
        SysKind::NamedDirect(n) => by_key!(key, |f| named_syscall_direct::<In<u32>, u32>(world, sysname_of(&f, n), input).ok()),
        SysKind::RegisterNamed(n) => { if value % 2 == 0 { by_key!(key, |f| register_named_system(world, sysname_of(&f, n), f)); } else { by_key!(key, |f| register_named_system_from(world, sysname_of(&f, n), CallbackSystem::new(f))); } Some(0) }
        SysKind::Spawned =>
        {
            let id = world.resource::<H>().sys[key as usize % 4];
            match id { Some(id) => spawned_syscall::<In<u32>, u32>(world, id, input).ok(), None => None }
        }
    };
    log(Ev::SysRet { uid: u, out });
}

pub fn cmd_syscall(c: &mut Commands, h: &mut H, kind: SysKind, key: u8, value: u32, _u: u32)
{
    let input = pack(state_id(kind, key, true), value);
    match kind
    {
        // (every other one through the `EntityCommands` of an unrelated, living entity)
        SysKind::Plain => match (value % 2 == 1).then(|| c.get_entity(h.slots[0])).flatten() { Some(mut ec) => by_key_cmd!(key, |f| ec.syscall(input, f)), None => by_key_cmd!(key, |f| c.syscall(input, f)) },
        SysKind::Validated => by_key_cmd!(key, |f| c.syscall_with_validation(input, f, |_| {})),
        SysKind::Once => by_key_cmd!(key, |f| c.syscall_once(input, f)),
        SysKind::OnceValidated => by_key_cmd!(key, |f| c.syscall_once_with_validation(input, f, |_| {})),
        SysKind::Spawned => { if let Some(id) = h.sys[key as usize % 4] { c.spawned_syscall::<In<u32>>(id, pack(state_id(SysKind::Spawned, key, true), value)); } }
        _ => {}
    }
}

/// Spawned system slots 0,1 return `u32` (for direct calls); slots 2,3 return `()` (for `Commands::spawned_syscall`).
pub fn spawn_sys(world: &mut World, k: u8, key: u8)
{
    let k = k as usize % 4;
    if world.resource::<H>().sys[k].is_some() { return; }
    // slots 1 and 3 hold the `ParamSet` form of the callee
    // (slot 0 alternates between `spawn_system`, `spawn_system_from` and `Commands::spawn_system` by function key)
    let id = match k { 0 if is_dw(key) => by_key!(key, |f| spawn_system(world, f)), 0 => match key % NKEYS { 0 => spawn_system(world, callee::<0>), 1 => spawn_system_from(world, CallbackSystem::new(callee::<1>)), _ => { let id = world.commands().spawn_system(callee::<2>); world.flush(); id } }, 1 => by_key_ps!(key, |f| spawn_system(world, f)), 2 => by_key_cmd!(key, |f| spawn_system(world, f)), _ => by_key_cmd_ps!(key, |f| spawn_system(world, f)) };
    let mut h = world.resource_mut::<H>();
    h.sys[k] = Some(id);
    h.known.push(id.entity());
}

pub fn revoke_named(world: &mut World, name: u8, key: u8)
{
    let sn = by_key!(key, |f| sysname_of(&f, name));
    if let Some(mut m) = world.get_resource_mut::<IdMappedSystems<In<u32>, u32>>() { m.revoke_sysname(sn); }
}

pub fn spawn_sys_rc(world: &mut World, k: u8, key: u8)
{
    let k = k as usize % 4;
    if world.resource::<H>().sys[k].is_some() { return; }
    let sig = match k { 0 => by_key!(key, |f| spawn_rc_system(world, f)), 1 => by_key_ps!(key, |f| spawn_rc_system(world, f)), 2 => by_key_cmd!(key, |f| spawn_rc_system(world, f)), _ => by_key_cmd_ps!(key, |f| spawn_rc_system(world, f)) };
    let mut h = world.resource_mut::<H>();
    h.sys[k] = Some(SysId::new(sig.entity()));
    h.known.push(sig.entity());
    h.sys_sigs[k] = Some(sig);
}

pub fn insert_sys(world: &mut World, k: u8, e: Entity, key: u8)
{
    let k = k as usize % 4;
    // one spawned system per entity; inserting again into the entity that hosts this very slot's system is a new registration that
    // replaces the old one (other combinations would replace some other slot's component)
    let again = world.resource::<H>().sys[k].map(|id| id.entity() == e).unwrap_or(false);
    if world.get_entity(e).is_err() { return; }
    if !again && (world.resource::<H>().sys[k].is_some() || world.resource::<H>().sys.iter().flatten().any(|s| s.entity() == e)) { return; }
    let ok = { let mut c = world.commands(); match k { 0 => by_key!(key, |f| c.insert_system(e, f)), 1 => by_key_ps!(key, |f| c.insert_system(e, f)), 2 => by_key_cmd!(key, |f| c.insert_system(e, f)), _ => by_key_cmd_ps!(key, |f| c.insert_system(e, f)) } };
    world.flush();
    if ok.is_ok() { world.resource_mut::<H>().sys[k] = Some(SysId::new(e)); }
}

pub fn clear_sys(world: &mut World, k: u8)
{
    let Some(id) = world.resource::<H>().sys[k as usize % 4] else { return };
    // not for a system that lives on a slot entity (clearing would strip the slot's own components)
    if world.resource::<H>().slots.contains(&id.entity()) { return; }
    if let Ok(mut em) = world.get_entity_mut(id.entity()) { em.clear(); }
}

pub fn kill_sys(world: &mut World, k: u8)
{
    if let Some(id) = world.resource::<H>().sys[k as usize % 4] { world.despawn(id.entity()); }
}

// ---- generator side ----

fn gen_kind(r: &mut Rng, min_key: u8) -> Option<(SysKind, u8)>
{
    if min_key >= NKEYS { return None; }
    let key = min_key + r.below((NKEYS - min_key) as u64) as u8;
    let name = r.below(2) as u8;
    Some(match r.below(13)
    {
        0 | 1 | 2 => (SysKind::Plain, key),
        3 => (SysKind::Validated, key),
        4 => (SysKind::Once, key),
        12 => (SysKind::OnceValidated, key),
        5 | 6 => (SysKind::Named(name), key),
        7 => (SysKind::NamedDirect(name), key),
        8 => (SysKind::RegisterNamed(name), key),
        _ => (SysKind::Spawned, r.below(2) as u8),
    })
}

pub fn gen_syscall(r: &mut Rng) -> Option<WOp>
{
    match r.below(16)
    {
        0 => Some(WOp::SpawnSys(r.below(4) as u8, r.below(NKEYS as u64) as u8)),
        1 => if r.chance(60) { Some(WOp::KillSys(r.below(4) as u8)) } else { Some(WOp::ClearSys(r.below(4) as u8)) },
        10 => Some(WOp::RevokeNamed(r.below(2) as u8, r.below(NKEYS as u64) as u8)),
        11 => Some(WOp::SpawnSysRc(r.below(4) as u8, r.below(NKEYS as u64) as u8)),
        12 => Some(WOp::DropSysRc(r.below(4) as u8)),
        // (a spawned-system slot always goes to the same entity slot, so that inserting again -- a new registration on an entity
        // that already hosts one -- happens)
        13 | 14 | 15 => { let k = r.below(4) as u8; Some(WOp::InsertSys(k, k % 2, r.below(NKEYS as u64) as u8)) }
        _ => { let (k, key) = gen_kind(r, 0)?; Some(WOp::Syscall(k, key, r.below(50) as u32)) }
    }
}

pub fn gen_cmd_syscall(r: &mut Rng) -> Option<Op>
{
    let key = r.below(NKEYS as u64) as u8;
    Some(match r.below(6)
    {
        0 | 1 => Op::CmdSyscall(SysKind::Plain, key, r.below(50) as u32),
        2 => Op::CmdSyscall(SysKind::Validated, key, r.below(50) as u32),
        3 => if r.chance(50) { Op::CmdSyscall(SysKind::Once, key, r.below(50) as u32) } else { Op::CmdSyscall(SysKind::OnceValidated, key, r.below(50) as u32) },
        _ => Op::CmdSyscall(SysKind::Spawned, 2 + r.below(2) as u8, r.below(50) as u32),
    })
}

/// Callee scripts: ordinary ops plus nested calls that only go to higher keys (no same-state recursion, see A3), and the
/// one recursion the property does speak about: a spawned system calling itself (must be refused).
pub fn gen_callees(g: &mut dyn GenOps) -> Vec<Vec<Vec<Op>>>
{
    let mut out = Vec::new();
    for key in 0..NKEYS
    {
        let ncalls = g.rng().range(1, 3);
        let mut scripts = Vec::new();
        for _ in 0..ncalls
        {
            let n = g.rng().range(0, 3);
            let mut ops = g.plain_ops(n);
            // strip ops that would recurse into arbitrary syscalls
            ops.retain(|o| !matches!(o, Op::CmdSyscall(..) | Op::Direct(WOp::Syscall(..)) | Op::Direct(WOp::SpawnSys(..)) | Op::Direct(WOp::KillSys(..)) | Op::Direct(WOp::ClearSys(..)) | Op::Direct(WOp::RevokeNamed(..)) | Op::Direct(WOp::SpawnSysRc(..)) | Op::Direct(WOp::DropSysRc(..)) | Op::Direct(WOp::InsertSys(..)) | Op::Now(_)));
            if g.rng().chance(50)
            {
                let min = if g.rng().chance(35) { 0 } else { key + 1 };
                if let Some((k, k2)) = gen_kind(g.rng(), min)
                {
                    if !matches!(k, SysKind::Spawned) { let v = g.rng().below(50) as u32; ops.push(Op::Direct(WOp::Syscall(k, k2, v))); }
                }
            }
            if g.rng().chance(25) { let k = g.rng().below(2) as u8; let v = g.rng().below(50) as u32; ops.push(Op::Direct(WOp::Syscall(SysKind::Spawned, k, v))); }
            // a spawned system that strips or despawns itself (or another spawned system) during a call
            if g.rng().chance(10) { let k = g.rng().below(4) as u8; ops.push(Op::Direct(if g.rng().chance(60) { WOp::ClearSys(k) } else { WOp::KillSys(k) })); }
            // re-entrancy on the callee's own key (documented: only the outer-most invocation's state persists)
            if g.rng().chance(25) { let n = g.rng().below(2) as u8; let v = g.rng().below(50) as u32; ops.push(Op::Direct(WOp::Syscall(SysKind::Named(n), key, v))); }
            if g.rng().chance(15) { let v = g.rng().below(50) as u32; ops.push(Op::Direct(WOp::Syscall(SysKind::Plain, key, v))); }
            scripts.push(ops);
        }
        scripts.push(Vec::new());
        out.push(scripts);
    }
    out
}
