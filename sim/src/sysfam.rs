//! syscall family (C17) — filled in later.
use crate::dsl::*;
use crate::harness::H;
use bevy::prelude::*;

pub fn cmd_syscall(_c: &mut Commands, _h: &mut H, _kind: SysKind, _key: u8, _input: u32, _u: u32) {}
pub fn world_syscall(_world: &mut World, _kind: SysKind, _key: u8, _input: u32, _u: u32) {}
pub fn spawn_sys(_world: &mut World, _k: u8, _key: u8) {}
pub fn kill_sys(_world: &mut World, _k: u8) {}

// ---- reference model side ----
use crate::model::{Checker, MRes, bail};

#[derive(Default)]
pub struct SysModel {}
impl SysModel
{
    pub fn extra_entities_lo(&self) -> i64 { 0 }
    pub fn extra_entities_hi(&self) -> i64 { 0 }
}
pub fn model_cmd_syscall(_c: &mut Checker, _kind: SysKind, _key: u8, _input: u32, _u: u32) -> MRes<()> { bail("syscall family not modelled yet") }
pub fn model_world_syscall(_c: &mut Checker, _kind: SysKind, _key: u8, _input: u32, _u: u32) -> MRes<()> { bail("syscall family not modelled yet") }
pub fn model_spawn_sys(_c: &mut Checker, _k: u8, _key: u8) -> MRes<()> { bail("syscall family not modelled yet") }
pub fn model_kill_sys(_c: &mut Checker, _k: u8) -> MRes<()> { bail("syscall family not modelled yet") }

// ---- generator side ----
use crate::gen::{GenOps, Rng};
pub fn gen_syscall(_r: &mut Rng) -> Option<WOp> { None }
pub fn gen_cmd_syscall(_r: &mut Rng) -> Option<Op> { None }
pub fn gen_callees(_g: &mut dyn GenOps) -> Vec<Vec<Vec<Op>>> { Vec::new() }
