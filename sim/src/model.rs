//! Reference specification: an abstract interpreter of the program that consumes the observed trace in lock-step.
//!
//! The spec speaks the properties' vocabulary (live registrations, busy, postponed, payload readers, ref-counts) and
//! Bevy's documented command semantics. Where the properties leave a choice open (sibling order, placement of
//! polls / garbage collections, order of postponed deliveries from different senders, exact drop position) it follows
//! what the implementation was observed to do and only checks that the choice is an allowed one.
use crate::dsl::*;
use crate::obs::{Ev, Post, Sample, RK_ABORT, RK_DISCARD, RK_ENTER, RK_ENTER_ROOT, RK_EXIT, RK_POSTPONE, RK_ROOT_EXIT, RK_RUN};
use std::collections::HashMap;

#[derive(Clone, Debug, PartialEq, Eq)]
pub struct Verdict
{
    pub prop: &'static str,
    pub rule: &'static str,
    /// Other properties that also own this rule.
    pub also: &'static [&'static str],
    pub pos: usize,
    pub msg: String,
}

macro_rules! stats_struct {
    ($($f:ident),* $(,)?) => {
        #[derive(Clone, Debug, Default)]
        pub struct Stats { $(pub $f: u64),* }
        impl Stats
        {
            pub fn add(&mut self, o: &Stats) { $( self.$f = if stringify!($f).starts_with("max_") { self.$f.max(o.$f) } else { self.$f + o.$f }; )* }
            pub fn fields(&self) -> Vec<(&'static str, u64)> { vec![ $( (stringify!($f), self.$f) ),* ] }
        }
    };
}
stats_struct!(
    bodies, applies, deliveries, postponed, max_postponed_one_target, nested_replay, skipped_dead, skipped_dead_postponed, optional_taken, optional_skipped, polled_events, polled_in_tree, polled_reactions, payloads, payload_zero_listeners, payload_abort_release, doomed_insts, once_fired, once_retrigger_after_fire, revokes_applied, revoke_mid_dispatch, kills, kill_self, err_returns, excl_bodies, registrations, reg_dead_entity, slot_respawn, max_depth, roots, multi_kind_same_tree, sibling_reorder, frames, guaranteed_gc, guaranteed_poll, a1_ambiguous, ewr_bodies, ewr_nodata_ok, inserts_dead_at_apply, setifneq_equal, setifneq_diff, removal_reinsert_removal, sig_zero, entity_recursive_despawn, fifo_pairs_checked, sys_calls, reactors_per_key_ge7,
    probes, ev_total, replayed, sys_recursive, acc_ops, single_acc, app_setup_again, bulk_collected, max_bulk, ewr_readd, res_removed, res_trigger_while_absent, excl_flushed_in_body, sig_zero_during_gc, sig_moved_into_entity, collected_observed, sig_zero_in_tree, payload_owned_signal_released, sys_cleared, dw_bodies, dw_self_postponed, dw_self_ran, polled_after_last_poll, sys_dw_calls, excl_flushed_mid_trigger, trigger_raced_pending, rc_inst_released, rc_scratch, sys_reinserted, gc_takes, max_gc_nesting, gc_nested_deferred, reactor_bulk, max_reactor_bulk, reactor_strip
);

#[derive(Clone, Debug)]
pub enum Outcome
{
    Ok,
    /// The spec met a situation it does not judge (documented ambiguity); nothing is claimed for this run.
    Inconclusive(String),
}

pub struct CheckResult
{
    pub verdicts: Vec<Verdict>,
    pub outcome: Outcome,
    pub stats: Stats,
}

type EntId = usize;
type RegId = usize;

#[derive(Clone, Copy, Debug, PartialEq, Eq, Hash)]
enum EKind { Ins(C), Mut(C), Rem(C), Ev(P) }

#[derive(Clone, Copy, Debug, PartialEq, Eq, Hash)]
enum Key { Broadcast(P), AnyEE(P), Res(R), Ins(C), Mut(C), Rem(C) }

/// A trigger resolved to model entities.
#[derive(Clone, Copy, Debug, PartialEq, Eq, Hash)]
enum MTrig { Tw(Key), Ent(EntId, EKind), Despawn(EntId) }

#[derive(Clone, Debug)]
struct EReg { kind: EKind, inst: Inst, reg: RegId }

#[derive(Clone, Debug, Default)]
struct Ent
{
    alive: bool,
    real: u64,
    comp: [Option<u8>; 2],
    children: Vec<EntId>,
    parent: Option<EntId>,
    ereg: Vec<EReg>,
    watchers: Vec<(Inst, RegId)>,
    ewr: [Option<u32>; 2],
    ewr_mask: [u8; 2],
    /// removal events seen since the last poll that consumed one (rare-condition probe)
    removed_since_poll: [u8; 2],
    /// clones of auto-despawn signals (signal slots) owned by this entity
    holds: Vec<usize>,
}

#[derive(Clone, Debug)]
struct Reg { inst: Inst, refcounted: bool, handles: usize, /// handles that may or may not have been released already (a revoke raced an invisible poll)
    uncertain: usize }

#[derive(Clone, Debug)]
struct InstM
{
    origin: Origin,
    /// the harness holds a `SystemCommand` for it
    known: bool,
    created: bool,
    alive: bool,
    /// ref-count reached zero: will be gone after the next garbage collection
    doomed: bool,
    /// its last handle may or may not have been released (a revoke raced an invisible poll): alive or collected, unknown
    limbo: bool,
    busy: bool,
    /// ref-counted system command whose signal the harness has dropped
    sig_released: bool,
    /// executing or just back in place: a command for it may be postponed or run (see `run`, `DeferredW`)
    busy_unknown: bool,
    runs: u32,
    once_fired: bool,
    real: Option<u64>,
    canary: bool,
    /// its count reached zero *during* a guaranteed collection (released by an entity that collection despawned)
    chain_doomed: bool,
    /// ever registered for / revoked from (for attribution)
    revoked_keys: Vec<MTrig>,
    kinds_this_tree: u32,
}

#[derive(Clone, Debug, PartialEq, Eq)]
enum Cause
{
    Manual,
    SysEvent(P, u32),
    Broadcast(P, u32),
    EntityEvent(P, u32, EntId),
    Resource(R),
    Ins(C, EntId),
    Mut(C, EntId),
    Rem(C, EntId),
    Despawn(EntId),
    /// a polled reaction that was postponed before the spec could see which event it is for
    PolledUnknown,
}

impl Cause
{
    fn payload(&self) -> Option<u32>
    {
        match self { Cause::SysEvent(_, id) | Cause::Broadcast(_, id) | Cause::EntityEvent(_, id, _) => Some(*id), _ => None }
    }
    fn kind_bit(&self) -> u32
    {
        match self
        {
            Cause::Manual => 0, Cause::SysEvent(..) => 1, Cause::Broadcast(..) => 2, Cause::EntityEvent(..) => 4, Cause::Resource(_) => 8,
            Cause::Ins(..) => 16, Cause::Mut(..) => 32, Cause::Rem(..) => 64, Cause::Despawn(_) => 128, Cause::PolledUnknown => 0,
        }
    }
}

#[derive(Clone, Debug)]
struct Delivery
{
    target: Inst,
    cause: Cause,
    /// the properties do not say whether this delivery happens (ambiguity rulings A1 / N4)
    optional: bool,
    /// despawn reactions hold one handle of the registration until they are done
    holds: Option<RegId>,
    /// (issuer, run) of the run whose command produced it, and a global sequence number
    sender: (u8, u32),
    seq: u64,
    /// when postponed: the run number of the target's execution that blocked it
    blocked_by: u32,
    /// issue number of the op that caused it
    iss: u64,
    /// it was (or may have been confused with) one of several indistinguishable pending deliveries: not judged for order
    tainted: bool,
}

#[derive(Clone, Debug)]
struct Payload
{
    applied: bool,
    dropped: bool,
    /// deliveries scheduled to read it that are neither done nor skipped
    unresolved: Vec<(Inst, bool)>,
    must_drop_now: bool,
    /// a signal clone owned by the payload
    holds: Option<usize>,
    /// sent by a direct call while commands were pending on the world's queue: provisionally applied with the listeners of
    /// *before* those commands (if there were none the payload may be dropped at once and nobody reacts)
    raced: bool,
}

#[derive(Clone, Debug)]
enum PKind { Removal(C), Despawn }

/// A removal / despawn event waiting to be noticed by a poll. Polls (and deliveries they postpone) are invisible in
/// the trace, so the spec does not place them: a reaction to the event is accepted at any later point, at most once
/// per reactor, and the reactors that must react are checked at the event's deadline.
#[derive(Clone, Debug)]
struct Polled
{
    kind: PKind,
    ent: EntId,
    /// reactors registered when the event happened (despawn: with the registration whose handle the reaction holds)
    must: Vec<(Inst, Option<RegId>)>,
    /// reactors that may react although they need not: revoked since, or entity-scoped on an entity that was despawned
    extra: Vec<(Inst, Option<RegId>)>,
    delivered: Vec<Inst>,
    in_tree: bool,
    /// deadline passed: only reactors registered later may still be told (N4)
    closed: bool,
    /// the run (issuer, run number) whose command caused the removal / despawn
    sender: (u8, u32),
    /// value of `sure_epoch` when the event happened: once that has moved on, a poll of the framework has certainly seen it
    sure: u64,
    /// value of the poll epoch when the event happened: while it is unchanged no poll can have seen the event
    epoch: u64,
}

#[derive(Clone, Debug)]
struct Token { inst: Inst, trigs: Vec<MTrig> }

/// An op after its issue-time part (slot / token / instance lookups) has been done.
#[derive(Clone, Debug)]
enum Issued
{
    Nop,
    Run(Option<Inst>),
    SysEvent(Option<Inst>, P),
    Broadcast(P),
    EntityEvent(EntId, P),
    TriggerRes(R),
    Insert(EntId, C, u8, bool),
    Remove(EntId, C, bool),
    Despawn(EntId, bool),
    DespawnRec(EntId, bool),
    MutTrigger(EntId, C),
    ResTrigger(R),
    Register(Inst, Mode, Vec<MTrig>),
    /// `On`: register, then the harness learns the new system's entity (unless created by `on`, which returns nothing)
    OnRegister(Inst, Mode, Vec<MTrig>, bool),
    Revoke(Option<Token>),
    Kill(Option<Inst>),
    Probe,
    Direct(WOp),
    WrAdd(u8, Vec<MTrig>),
    WrRemove(u8, Vec<MTrig>),
    WrRun(u8),
    EwrAdd(u8, EntId, u32),
    EwrRemove(u8, EntId, u8, Vec<MTrig>),
    EwrRemoveMany(u8, Vec<(EntId, u8)>, Vec<MTrig>),
    CmdSyscall(SysKind, u8, u32),
}

pub struct Bail(String);
type Res<T> = Result<T, Stop>;
pub enum Stop { Violation, Bail(Bail) }

pub struct Checker<'a>
{
    prog: &'a Program,
    trace: &'a [Ev],
    pos: usize,
    /// positions of floating events read but not yet accounted for
    floats: Vec<usize>,
    hooks: bool,
    pub verdicts: Vec<Verdict>,
    pub stats: Stats,

    ents: Vec<Ent>,
    slots: Vec<EntId>,
    insts: Vec<InstM>,
    regs: Vec<Reg>,
    tables: HashMap<Key, Vec<(Inst, RegId)>>,
    tokens: Vec<Option<Token>>,
    /// values of the resources; `T` (index 2) may be absent
    res: [u8; 3],
    res_t_present: bool,
    payloads: HashMap<u32, Payload>,
    pending_immediate_drop: Option<u32>,
    polled: Vec<Polled>,
    postponed: Vec<Delivery>,
    stack: Vec<Inst>,
    /// number of runs (including their replays) we are inside of: 0 = not inside any reaction tree
    tree_depth: usize,
    seq: u64,
    /// current sender (issuer, run)
    sender: (u8, u32),
    wr_keys: [Vec<MTrig>; 2],
    sigs: Vec<(Option<EntId>, usize)>,
    doomed_ents: Vec<EntId>,
    resolve_uncertain: Vec<RegId>,
    /// per (sender, target): last consumed sequence number
    fifo: HashMap<((u8, u32), Inst), (u64, bool)>,
    gc_guaranteed_this_step: bool,
    in_direct_step: bool,
    in_gc: bool,
    in_op_prologue: bool,
    /// Polls happen at runner boundaries, at explicit poll calls and in `Last`: all visible in the trace. The epoch advances at
    /// each of them, so "no poll can have happened since X" is decidable.
    /// who would react to the direct trigger call being executed if it were computed *before* the commands still pending on the
    /// world's queue are applied (see A2, `excl_noflush`)
    pre_targets: Option<Vec<Inst>>,
    pre_ent: Option<EntId>,
    pre_t_present: Option<bool>,
    poll_epoch: u64,
    /// counts the points at which the framework certainly polls (runner entry, abort, discard, after a system's commands,
    /// explicit polls, `Last`)
    sure_epoch: u64,
    /// entities whose last signal clone was gone when a guaranteed collection started: they must be gone when it is over
    gc_must: Vec<EntId>,
    gc_pending_deadline: bool,
    /// entities a collection inside a tree / batch should have taken: judged at the end of the step
    gc_overdue: Vec<EntId>,
    gc_overdue_insts: Vec<usize>,
    /// entities that collection passes are busy despawning (innermost last)
    gc_taking: Vec<u64>,
    /// trace position of the first `Gone` of an entity
    gone_pos: HashMap<u64, usize>,
    /// a collection pass received a notification for something that was already gone (a stale reference, C18)
    stale_take_seen: bool,
    /// a removal or despawn trigger was revoked at some point of this run
    revoked_polled: bool,
    /// `StateCreated` events seen so far
    created_seen: u64,
    gc_before: Vec<bool>,
    /// entities whose last signal clone went inside the current root tree: every runner exit collects, so they must be gone
    /// when the tree ends
    doomed_in_tree: Vec<EntId>,
    /// clones held by the harness (the rest of a signal's count is owned by entities)
    sig_harness: [usize; 4],
    deferred_bail: Option<String>,
    /// bulk auto-despawn scenario: entities whose signals are all dropped / entities with a clone still held / alive now
    bulk_released: u32,
    bulk_held: u32,
    bulk_alive: i64,
    /// commands queued on the world's command queue by exclusive bodies that are still executing: (uid, op, sender)
    wq: std::collections::VecDeque<(u32, Issued, (u8, u32))>,
    /// issue order of ops (C12 speaks about the order in which a run *sent* things)
    iss_counter: u64,
    cur_iss: u64,
    iss_of: HashMap<u32, u64>,
    pub sys: SysModel,
}


macro_rules! fail {
    ($self:ident, $prop:expr, $rule:expr, $also:expr, $($arg:tt)*) => {{
        $self.verdicts.push(Verdict { prop: $prop, rule: $rule, also: $also, pos: $self.pos, msg: format!($($arg)*) });
        return Err(Stop::Violation);
    }};
}

fn is_floating(ev: &Ev) -> bool { matches!(ev, Ev::Drop(_) | Ev::Canary(_) | Ev::Bystander(_) | Ev::Gone(_) | Ev::GcTake(_) | Ev::StateCreated) }

impl<'a> Checker<'a>
{
    pub fn new(prog: &'a Program, trace: &'a [Ev], hooks: bool) -> Self
    {
        let insts = prog.insts.iter().map(|d| InstM {
            origin: d.origin, known: false, created: false, alive: false, doomed: false, limbo: false, busy: false, sig_released: false, busy_unknown: false, runs: 0,
            once_fired: false, real: None, canary: false, chain_doomed: false, revoked_keys: Vec::new(), kinds_this_tree: 0,
        }).collect();
        Checker {
            prog, trace, pos: 0, floats: Vec::new(), hooks, verdicts: Vec::new(), stats: Stats::default(),
            ents: Vec::new(), slots: Vec::new(), insts, regs: Vec::new(), tables: HashMap::new(),
            tokens: vec![None; prog.insts.len()], res: [0, 0, 0], res_t_present: true, payloads: HashMap::new(), pending_immediate_drop: None,
            polled: Vec::new(), postponed: Vec::new(), stack: Vec::new(), tree_depth: 0, seq: 0, sender: (DRIVER, 0),
            wr_keys: [Vec::new(), Vec::new()], sigs: vec![(None, 0); 4], doomed_ents: Vec::new(), resolve_uncertain: Vec::new(), fifo: HashMap::new(),
            gc_guaranteed_this_step: false, in_direct_step: false, in_gc: false, in_op_prologue: false, pre_targets: None, pre_ent: None, pre_t_present: None, poll_epoch: 0, sure_epoch: 0, gc_must: Vec::new(), gc_pending_deadline: false, gc_overdue: Vec::new(), gc_overdue_insts: Vec::new(), gc_taking: Vec::new(), gone_pos: HashMap::new(), stale_take_seen: false, revoked_polled: false, created_seen: 0, gc_before: Vec::new(), doomed_in_tree: Vec::new(), sig_harness: [0; 4], deferred_bail: None, bulk_released: 0, bulk_held: 0, bulk_alive: 0, wq: Default::default(), iss_counter: 0, cur_iss: 0, iss_of: HashMap::new(), sys: Default::default(),
        }
    }

    pub fn check(mut self) -> CheckResult
    {
        if !self.hooks
        {
            return CheckResult { verdicts: Vec::new(), outcome: Outcome::Inconclusive("the lock-step spec needs the runner hook events".into()), stats: self.stats };
        }
        let outcome = match self.run_all()
        {
            Ok(()) | Err(Stop::Violation) => Outcome::Ok,
            Err(Stop::Bail(Bail(s))) => Outcome::Inconclusive(s),
        };
        CheckResult { verdicts: self.verdicts, outcome, stats: self.stats }
    }

    //---------------------------------------------------------------------------------------------------------------
    // trace cursor

    /// Floating events (payload drops, state drops) happen between two structural events, while the spec makes silent
    /// transitions (runs ending, reactors despawning themselves, postponed deliveries being skipped). Each one is accepted as
    /// soon as some state the spec passes through accounts for it; if none did by the time the next structural event is
    /// consumed, it is a violation.
    fn judge_floats(&mut self, last_chance: bool) -> Res<()>
    {
        let mut i = 0;
        while i < self.floats.len()
        {
            let fpos = self.floats[i];
            let ev = &self.trace[fpos];
            match self.floating(ev, last_chance, fpos)?
            {
                true => { self.floats.remove(i); }
                false => { i += 1; }
            }
        }
        Ok(())
    }

    /// Returns whether the floating event is accounted for in the current state; fails if not and this is the last chance.
    fn floating(&mut self, ev: &Ev, last_chance: bool, fpos: usize) -> Res<bool>
    {
        match ev
        {
            Ev::Drop(id) =>
            {
                let Some(p) = self.payloads.get(id).cloned() else {
                    if !last_chance { return Ok(false); }
                    self.pos = fpos;
                    fail!(self, "C05", "drop-unknown-payload", &[], "payload {id:#x} dropped but never sent");
                };
                if p.dropped { self.pos = fpos; fail!(self, "C05", "drop-twice", &[], "payload {id:#x} dropped twice"); }
                if !p.applied
                {
                    if !last_chance { return Ok(false); }
                    self.pos = fpos;
                    fail!(self, "C05", "drop-too-early", &[], "payload {id:#x} dropped before its send command was applied");
                }
                for (inst, optional) in &p.unresolved
                {
                    let t = &self.insts[*inst as usize];
                    if t.alive && !t.doomed && !t.limbo && !*optional
                    {
                        if !last_chance { return Ok(false); }
                        self.pos = fpos;
                        fail!(self, "C05", "drop-too-early", &[], "payload {id:#x} dropped while a scheduled reader (instance {inst}) has yet to run");
                    }
                }
                self.payloads.get_mut(id).unwrap().dropped = true;
                if self.pending_immediate_drop == Some(*id) { self.pending_immediate_drop = None; }
                if let Some(k) = p.holds { self.stats.payload_owned_signal_released += 1; self.sig_release(k); }
                Ok(true)
            }
            Ev::Gone(bits) =>
            {
                // the exact moment a slot entity goes (remove hook). Despawns the program asked for have been applied to the spec
                // already; anything else must be a collection of an entity whose signal count reached zero (or a descendant).
                let Some(e) = self.ents.iter().rposition(|x| x.real == *bits) else { return Ok(true) };
                if !self.ents[e].alive { return Ok(true); }
                // (the spec may be in the middle of applying the op that explains it -- a manual despawn of an entity that also happens
                // to have no clone left is *not* a collection and is not recursive: decide when the next structural event is consumed)
                let collectable = self.doomed_ents.contains(&e) || self.has_doomed_ancestor(e);
                // Seen while looking ahead in the prologue of a world operation (before its own effect has been applied to the spec): a
                // manual despawn of an entity that also happens to have no clone left is *not* a collection and is not recursive.
                if !last_chance && (self.in_op_prologue || !collectable) { return Ok(false); }
                if collectable
                {
                    self.stats.collected_observed += 1;
                    self.doomed_ents.retain(|x| *x != e);
                    let saved = self.in_gc;
                    self.in_gc = true;
                    self.despawn_rec(e);
                    self.in_gc = saved;
                    return Ok(true);
                }
                self.pos = fpos;
                if self.sigs.iter().any(|(se, n)| *se == Some(e) && *n > 0) || self.is_descendant_of_signal(e)
                {
                    fail!(self, "C10", "premature-autodespawn", &[], "entity {bits:#x} was despawned while a clone of its signal (or of an ancestor's) still exists");
                }
                fail!(self, "C18", "entity-liveness", &["C10", "C08"], "entity {bits:#x} was despawned although nothing in the program despawns it");
            }
            Ev::StateCreated => { self.created_seen += 1; Ok(true) }
            Ev::GcTake(bits) =>
            {
                // `despawn_recursive` first of all takes the entity out of its parent's child list -- before the flush with which
                // the despawn itself begins. A recursive despawn of the parent from inside that flush no longer reaches it.
                // (a notification for something that went earlier -- its `Gone` may still be waiting to be judged -- is stale)
                if self.gone_pos.get(bits).map(|p| *p < fpos).unwrap_or(false) { self.stale_take_seen = true; return Ok(true); }
                if self.insts.iter().any(|t| t.real == Some(*bits) && !t.alive) || self.ents.iter().any(|x| x.real == *bits && !x.alive) { self.stale_take_seen = true; }
                if let Some(e) = self.ents.iter().rposition(|x| x.real == *bits)
                {
                    if self.ents[e].alive { if let Some(p) = self.ents[e].parent.take() { self.ents[p].children.retain(|c| *c != e); } }
                }
                Ok(true)
            }
            Ev::Canary(i) =>
            {
                let t = &self.insts[*i as usize];
                if t.alive && !t.doomed && !t.limbo
                {
                    if !last_chance { return Ok(false); }
                    self.pos = fpos;
                    let persistent = !self.regs.iter().any(|r| r.inst == *i && r.refcounted);
                    if self.prog.insts[*i as usize].rc { fail!(self, "C10", "premature-autodespawn", &["C07"], "state of the ref-counted system command {i} dropped although the clone of its signal still exists"); }
                    if persistent { fail!(self, "C07", "persistent-despawned", &["C13", "C16"], "state of instance {i} dropped although nothing despawned it"); }
                    // (with a delivery postponed for it: "postponed until that execution has completed, and then runs", C09 / C02)
                    if self.postponed.iter().any(|p| p.target == *i) { fail!(self, "C07", "reactor-premature-despawn", &["C13", "C09", "C02"], "state of instance {i} dropped while a trigger is still registered and a delivery is postponed for it"); }
                    fail!(self, "C07", "reactor-premature-despawn", &["C13"], "state of instance {i} dropped while a trigger is still registered");
                }
                let t = &mut self.insts[*i as usize];
                t.canary = true;
                t.alive = false;
                Ok(true)
            }
            _ => Ok(true),
        }
    }

    /// Next structural event (floating events in front of it are processed).
    fn peek(&mut self) -> Res<Option<&'a Ev>>
    {
        if let Some(why) = self.deferred_bail.take() { return Err(Stop::Bail(Bail(why))); }
        while self.pos < self.trace.len() && is_floating(&self.trace[self.pos])
        {
            // which entities collection passes have received and are busy despawning right now (a hook event tells)
            match &self.trace[self.pos]
            {
                Ev::GcTake(bits) => { self.gc_taking.push(*bits); self.stats.gc_takes += 1; if self.gc_taking.len() as u64 > self.stats.max_gc_nesting { self.stats.max_gc_nesting = self.gc_taking.len() as u64; } }
                // (... until it is observed going: the remove hook of a slot entity, the dropped state of a system)
                Ev::Gone(bits) => { self.gc_taking.retain(|b| b != bits); let pos = self.pos; self.gone_pos.entry(*bits).or_insert(pos); }
                Ev::Canary(i) => { if let Some(r) = self.insts[*i as usize].real { self.gc_taking.retain(|b| *b != r); } }
                _ => {}
            }
            self.floats.push(self.pos);
            self.pos += 1;
        }
        self.judge_floats(false)?;
        let ev = self.trace.get(self.pos);
        if let Some(Ev::Panic(msg)) = ev
        {
            // (a panic inside the framework ends the tree: whatever any property promises about this run is off)
            fail!(self, "C18", "panic", &["C01", "C02", "C03", "C04", "C05", "C06", "C07", "C08", "C09", "C10", "C11", "C12", "C13", "C14", "C15", "C16", "C17"], "panic: {msg}");
        }
        if let (Some(id), Some(e)) = (self.pending_immediate_drop, ev)
        {
            let _ = e;
            self.pending_immediate_drop = None;
            fail!(self, "C05", "drop-not-immediate", &[], "payload {id:#x} has no listener but was not dropped at once");
        }
        Ok(ev)
    }

    /// Consumes the structural event at the cursor. Floating events that happened before it must be accounted for by now.
    fn advance(&mut self) -> Res<()>
    {
        self.judge_floats(true)?;
        if self.gc_pending_deadline { self.gc_deadline()?; }
        if matches!(self.trace.get(self.pos), Some(Ev::Runner(..)) | Some(Ev::LastPollBegin) | Some(Ev::LastPollEnd)) { self.poll_epoch += 1; }
        if matches!(self.trace.get(self.pos), Some(Ev::Runner(k, _)) if [RK_ENTER, RK_ENTER_ROOT, RK_ABORT, RK_DISCARD].contains(k)) || matches!(self.trace.get(self.pos), Some(Ev::LastPollBegin)) { self.sure_epoch += 1; }
        self.pos += 1;
        Ok(())
    }

    fn unexpected(&mut self, want: &str) -> Res<()>
    {
        let ev = self.peek()?;
        match ev
        {
            Some(Ev::Body { inst, s, .. }) => self.unexpected_body(*inst, s.clone(), want),
            Some(other) => fail!(self, "C09", "order-mismatch", &["C02"], "expected {want}, observed {other:?}"),
            None => fail!(self, "C02", "trace-ended", &["C09"], "expected {want}, trace ended"),
        }
    }

    /// Classifies a body nothing in the spec accounts for.
    fn unexpected_body(&mut self, inst: Inst, s: Sample, want: &str) -> Res<()>
    {
        let t = self.insts[inst as usize].clone();
        if t.busy { fail!(self, "C09", "postponed-ran-too-early", &["C02"], "instance {inst} ran while it is already executing (expected {want})"); }
        if t.once_fired { fail!(self, "C15", "once-ran-twice", &[], "one-off reactor {inst} ran again with {s:?}"); }
        if !t.alive { fail!(self, "C18", "ran-dead-target", &["C07"], "instance {inst} ran after it was despawned, with {s:?}"); }
        // a payload that is already fully read: duplicate run
        for id in s.b.iter().flatten().chain(s.s.iter().flatten()).chain(s.e.iter().flatten().map(|(_, id)| id))
        {
            if let Some(p) = self.payloads.get(id)
            {
                if p.applied && !p.unresolved.iter().any(|(i, _)| *i == inst)
                {
                    // was it ever a listener? if it was revoked -> C06
                    if !t.revoked_keys.is_empty() { fail!(self, "C06", "reaction-after-revoke", &["C01", "C02"], "instance {inst} ran for payload {id:#x} with {s:?} although not (or no longer) scheduled to read it"); }
                    fail!(self, "C01", "unexpected-reaction", &["C02"], "instance {inst} ran for payload {id:#x} with {s:?} although not scheduled to read it (expected {want})");
                }
            }
        }
        if s.ins.iter().flatten().any(|bits| self.ents.iter().any(|e| e.real == *bits && !e.alive))
        {
            fail!(self, "C14", "insertion-on-dead-entity", &["C18", "C01"], "instance {inst} reacted to an insertion on a despawned entity: {s:?}");
        }
        if s.mu.iter().flatten().any(|bits| self.ents.iter().any(|e| e.real == *bits && !e.alive) && !self.ents.iter().any(|e| e.real == *bits && e.alive))
        {
            fail!(self, "C14", "mutation-on-dead-entity", &["C18", "C01"], "instance {inst} reacted to a mutation of a despawned entity that nothing triggered: {s:?}");
        }
        if self.prog.insts[inst as usize].origin == Origin::Once && !s.is_empty()
        {
            fail!(self, "C15", "once-ran-without-trigger", &["C08", "C01"], "one-off reactor {inst} ran with {s:?} although none of its triggers fired (expected {want})");
        }
        if s.rem.iter().flatten().next().is_some() || s.d.is_some()
        {
            if matches!(self.prog.insts[inst as usize].origin, Origin::World(_) | Origin::EntityWorld(_)) { fail!(self, "C08", "polled-spurious", &["C01", "C16"], "world reactor {inst} ran a removal/despawn reaction nothing accounts for: {s:?} (expected {want})"); }
            fail!(self, "C08", "polled-spurious", &["C01"], "instance {inst} ran a removal/despawn reaction nothing accounts for: {s:?} (expected {want})");
        }
        if !t.revoked_keys.is_empty() { fail!(self, "C06", "reaction-after-revoke", &["C01"], "instance {inst} ran with {s:?}; it is not registered for that (expected {want})"); }
        if s.is_empty() { fail!(self, "C02", "duplicate-run", &["C01", "C03", "C14"], "instance {inst} ran with no event although nothing scheduled it (expected {want})"); }
        if s.mu.iter().flatten().next().is_some() || s.ins.iter().flatten().next().is_some()
        {
            fail!(self, "C14", "unexpected-component-reaction", &["C01", "C02"], "instance {inst} ran with {s:?}; no insertion / mutation trigger accounts for it (expected {want})");
        }
        fail!(self, "C01", "unexpected-reaction", &["C02"], "instance {inst} ran with {s:?}; nothing accounts for it (expected {want})");
    }

    //---------------------------------------------------------------------------------------------------------------
    // helpers

    fn real(&self, e: EntId) -> u64 { self.ents[e].real }

    fn expected_sample(&self, c: &Cause) -> Sample
    {
        let mut s = Sample::default();
        match c
        {
            Cause::Manual | Cause::Resource(_) | Cause::PolledUnknown => {}
            Cause::SysEvent(p, id) => s.s[p.idx()] = Some(*id),
            Cause::Broadcast(p, id) => s.b[p.idx()] = Some(*id),
            Cause::EntityEvent(p, id, e) => s.e[p.idx()] = Some((self.real(*e), *id)),
            Cause::Ins(c, e) => s.ins[c.idx()] = Some(self.real(*e)),
            Cause::Mut(c, e) => s.mu[c.idx()] = Some(self.real(*e)),
            Cause::Rem(c, e) => s.rem[c.idx()] = Some(self.real(*e)),
            Cause::Despawn(e) => s.d = Some(self.real(*e)),
        }
        s
    }

    fn new_ent(&mut self, real: u64) -> EntId
    {
        self.ents.push(Ent { alive: true, real, ..Default::default() });
        self.ents.len() - 1
    }

    fn resolve(&self, t: &Trig) -> MTrig
    {
        let e = |s: Slot| self.slots[s as usize];
        match *t
        {
            Trig::Broadcast(p) => MTrig::Tw(Key::Broadcast(p)),
            Trig::AnyEntityEvent(p) => MTrig::Tw(Key::AnyEE(p)),
            Trig::Resource(r) => MTrig::Tw(Key::Res(r)),
            Trig::Insertion(c) => MTrig::Tw(Key::Ins(c)),
            Trig::Mutation(c) => MTrig::Tw(Key::Mut(c)),
            Trig::Removal(c) => MTrig::Tw(Key::Rem(c)),
            Trig::EntityEvent(s, p) => MTrig::Ent(e(s), EKind::Ev(p)),
            Trig::EntityInsertion(s, c) => MTrig::Ent(e(s), EKind::Ins(c)),
            Trig::EntityMutation(s, c) => MTrig::Ent(e(s), EKind::Mut(c)),
            Trig::EntityRemoval(s, c) => MTrig::Ent(e(s), EKind::Rem(c)),
            Trig::Despawn(s) => MTrig::Despawn(e(s)),
        }
    }

    fn drop_handle(&mut self, reg: RegId)
    {
        let r = &mut self.regs[reg];
        r.handles = r.handles.saturating_sub(1);
        if r.refcounted && r.handles == 0
        {
            let i = r.inst as usize;
            if r.uncertain > 0 { if self.insts[i].alive && !self.insts[i].doomed { self.insts[i].limbo = true; } }
            else if self.insts[i].alive && !self.insts[i].doomed { self.insts[i].doomed = true; self.insts[i].limbo = false; self.stats.doomed_insts += 1; }
        }
    }

    fn register(&mut self, inst: Inst, mode: Mode, trigs: &[MTrig])
    {
        self.stats.registrations += 1;
        let refcounted = mode != Mode::Persistent;
        self.regs.push(Reg { inst, refcounted, handles: 0, uncertain: 0 });
        let reg = self.regs.len() - 1;
        for t in trigs
        {
            match *t
            {
                MTrig::Tw(k) =>
                {
                    if let Key::Rem(c) = k { for p in self.polled.iter_mut() { if matches!(p.kind, PKind::Removal(c2) if c2 == c) { p.extra.push((inst, None)); } } }
                    let v = self.tables.entry(k).or_default();
                    v.push((inst, reg));
                    if v.len() >= 7 { self.stats.reactors_per_key_ge7 += 1; }
                    self.regs[reg].handles += 1;
                }
                MTrig::Ent(e, kind) =>
                {
                    if self.ents[e].alive
                    {
                        self.ents[e].ereg.push(EReg { kind, inst, reg });
                        self.regs[reg].handles += 1;
                        // a removal that has not been polled yet may be reported to a reactor registered meanwhile (N4)
                        if let EKind::Rem(c) = kind { for p in self.polled.iter_mut() { if matches!(p.kind, PKind::Removal(c2) if c2 == c) && p.ent == e { p.extra.push((inst, None)); } } }
                    }
                    else { self.stats.reg_dead_entity += 1; }
                }
                MTrig::Despawn(e) =>
                {
                    if self.ents[e].alive { self.ents[e].watchers.push((inst, reg)); self.regs[reg].handles += 1; }
                    else { self.stats.reg_dead_entity += 1; }
                }
            }
        }
        if refcounted && self.regs[reg].handles == 0
        {
            let i = inst as usize;
            if self.insts[i].alive && !self.insts[i].doomed { self.insts[i].doomed = true; self.stats.doomed_insts += 1; }
        }
    }

    fn revoke(&mut self, inst: Inst, trigs: &[MTrig])
    {
        self.stats.revokes_applied += 1;
        if self.tree_depth > 0 { self.stats.revoke_mid_dispatch += 1; }
        for t in trigs
        {
            self.insts[inst as usize].revoked_keys.push(*t);
            if matches!(*t, MTrig::Tw(Key::Rem(_)) | MTrig::Ent(_, EKind::Rem(_)) | MTrig::Despawn(_)) { self.revoked_polled = true; }
            match *t
            {
                MTrig::Tw(k) =>
                {
                    if let Some(v) = self.tables.get_mut(&k)
                    {
                        if let Some(pos) = v.iter().position(|(i, _)| *i == inst) { let (_, reg) = v.remove(pos); self.drop_handle(reg); }
                    }
                }
                MTrig::Ent(e, kind) =>
                {
                    if self.ents[e].alive
                    {
                        let mut dropped = Vec::new();
                        self.ents[e].ereg.retain(|r| if r.kind == kind && r.inst == inst { dropped.push(r.reg); false } else { true });
                        for r in dropped { self.drop_handle(r); }
                    }
                }
                MTrig::Despawn(e) =>
                {
                    if let Some(pos) = self.ents[e].watchers.iter().position(|(i, _)| *i == inst)
                    {
                        let (_, reg) = self.ents[e].watchers.remove(pos);
                        self.drop_handle(reg);
                    }
                    // entity already gone and its event pending: if no poll has seen it yet the watcher is dropped here,
                    // otherwise its reaction is already scheduled and will still run; either is accepted
                    let mut dropped = Vec::new();
                    let mut certain = Vec::new();
                    let epoch_now = self.poll_epoch;
                    for p in self.polled.iter_mut()
                    {
                        if !matches!(p.kind, PKind::Despawn) || p.ent != e { continue; }
                        if let Some(pos) = p.must.iter().position(|(i, _)| *i == inst)
                        {
                            let (i, reg) = p.must.remove(pos);
                            // no poll can have seen the despawn yet: the watcher is still in the table and the revoke removes it for
                            // certain (C06: the very next trigger application -- the poll -- must not schedule it)
                            if p.epoch == epoch_now { if let Some(r) = reg { certain.push(r); } continue; }
                            p.extra.push((i, reg));
                            if let Some(r) = reg { dropped.push(r); }
                        }
                    }
                    for r in certain { self.drop_handle(r); }
                    for r in dropped
                    {
                        let reg = &mut self.regs[r];
                        reg.handles = reg.handles.saturating_sub(1);
                        reg.uncertain += 1;
                        if reg.refcounted && reg.handles == 0 { let i = reg.inst as usize; if self.insts[i].alive && !self.insts[i].doomed { self.insts[i].limbo = true; } }
                    }
                }
            }
            // a removal reactor revoked while a removal event is pending: if it was already scheduled it still runs (C06)
            let rem = match *t { MTrig::Tw(Key::Rem(c)) => Some((None, c)), MTrig::Ent(e, EKind::Rem(c)) => Some((Some(e), c)), _ => None };
            let self_epoch = self.poll_epoch;
            if let Some((ent, c)) = rem
            {
                for pi in 0..self.polled.len()
                {
                    if !matches!(self.polled[pi].kind, PKind::Removal(c2) if c2 == c) { continue; }
                    if let Some(e) = ent { if self.polled[pi].ent != e { continue; } }
                    // Every registration of this reactor for the revoked trigger goes (re-added entity-scoped duplicates included);
                    // what it still has for the same removal -- e.g. a type-wide registration next to the revoked entity-scoped one --
                    // keeps its obligation.
                    let remain = self.removal_listeners_now(self.polled[pi].ent, c).iter().filter(|i| **i == inst).count();
                    let p = &mut self.polled[pi];
                    while p.must.iter().filter(|(i, _)| *i == inst).count() > remain
                    {
                        let pos = p.must.iter().position(|(i, _)| *i == inst).unwrap();
                        p.must.remove(pos);
                        if p.epoch != self_epoch { p.extra.push((inst, None)); }
                    }
                }
            }
        }
    }

    fn raise(&mut self, kind: PKind, ent: EntId, must: Vec<(Inst, Option<RegId>)>, extra: Vec<(Inst, Option<RegId>)>)
    {
        self.stats.polled_events += 1;
        let in_tree = self.tree_depth > 0;
        if in_tree { self.stats.polled_in_tree += 1; }
        // (what a collection pass despawns, it despawns in an order of its own -- children first, interleaved with whatever nested
        // collections take meanwhile: those removals are not ordered against each other)
        let sender = if self.in_gc { (0xFE, 0) } else { self.sender };
        let epoch = self.poll_epoch;
        let sure = self.sure_epoch;
        self.polled.push(Polled { kind, ent, must, extra, delivered: Vec::new(), in_tree, closed: false, sender, epoch, sure });
    }

    fn despawn_ent(&mut self, e: EntId)
    {
        if !self.ents[e].alive { return; }
        self.ents[e].alive = false;
        for c in C::ALL
        {
            if self.ents[e].comp[c.idx()].take().is_some()
            {
                let must: Vec<(Inst, Option<RegId>)> = self.tables.get(&Key::Rem(c)).map(|v| v.iter().map(|(i, _)| (*i, None)).collect()).unwrap_or_default();
                let may: Vec<(Inst, Option<RegId>)> = self.ents[e].ereg.iter().filter(|r| r.kind == EKind::Rem(c)).map(|r| (r.inst, None)).collect();
                self.raise(PKind::Removal(c), e, must, may);
            }
        }
        let ereg = std::mem::take(&mut self.ents[e].ereg);
        for r in ereg
        {
            // an entity-scoped removal reactor loses its registration with the entity: it need not react to removals
            // still pending for it (N4), though it may if the poll already happened
            if let EKind::Rem(c) = r.kind
            {
                for p in self.polled.iter_mut()
                {
                    if !matches!(p.kind, PKind::Removal(c2) if c2 == c) || p.ent != e { continue; }
                    if let Some(pos) = p.must.iter().position(|(i, _)| *i == r.inst) { p.must.remove(pos); p.extra.push((r.inst, None)); }
                }
            }
            self.drop_handle(r.reg);
        }
        if !self.ents[e].watchers.is_empty()
        {
            // the pending event now owns the watchers (and their handles)
            let must = std::mem::take(&mut self.ents[e].watchers).into_iter().map(|(i, r)| (i, Some(r))).collect();
            self.raise(PKind::Despawn, e, must, Vec::new());
        }
        self.ents[e].ewr = [None, None];
        self.ents[e].ewr_mask = [0, 0];
        for k in std::mem::take(&mut self.ents[e].holds) { self.sig_release(k); }
        // children are orphaned, the parent keeps a stale child id
    }

    fn despawn_rec(&mut self, e: EntId)
    {
        if !self.ents[e].alive { return; }
        self.stats.entity_recursive_despawn += 1;
        // Bevy despawns descendants first, then the entity
        let children = std::mem::take(&mut self.ents[e].children);
        for ch in children { if self.ents[ch].alive && self.ents[ch].parent == Some(e) { self.despawn_rec(ch); } }
        if let Some(p) = self.ents[e].parent { self.ents[p].children.retain(|c| *c != e); }
        self.despawn_ent(e);
    }

    fn kill_inst(&mut self, i: Inst)
    {
        let t = &mut self.insts[i as usize];
        if !t.alive { return; }
        t.alive = false;
        self.stats.kills += 1;
        if self.stack.contains(&i) { self.stats.kill_self += 1; }
    }

    /// One clone of signal `k` is gone.
    fn sig_release(&mut self, k: usize)
    {
        if self.sigs[k].1 == 0 { return; }
        self.sigs[k].1 -= 1;
        if self.sigs[k].1 == 0
        {
            self.stats.sig_zero += 1;
            if self.in_gc { self.stats.sig_zero_during_gc += 1; }
            if let Some(e) = self.sigs[k].0
            {
                if self.ents[e].alive
                {
                    self.doomed_ents.push(e);
                    if self.tree_depth > 0 && !self.in_gc { self.doomed_in_tree.push(e); self.stats.sig_zero_in_tree += 1; }
                }
            }
        }
    }

    fn guaranteed_gc(&mut self)
    {
        self.stats.guaranteed_gc += 1;
        self.gc_guaranteed_this_step = true;
        for k in std::mem::take(&mut self.sys.doomed) { if let Some(s) = self.sys.spawned[k].as_mut() { s.1 = false; } }
        // The entities themselves are observed going (`Gone` events): whatever had no clone left when this collection started
        // must be gone when it is over. (An entity released *during* the pass -- its last clone was owned by something the
        // pass despawned -- may go now or with the next collection.)
        for e in self.doomed_ents.clone() { if self.ents[e].alive && !self.gc_must.contains(&e) { self.gc_must.push(e); } }
        self.gc_before = self.insts.iter().map(|t| t.doomed).collect();
        self.gc_pending_deadline = true;
    }

    /// After a guaranteed collection (and the `Gone` events it produced) has been consumed.
    fn gc_deadline(&mut self) -> Res<()>
    {
        self.gc_pending_deadline = false;
        // a collection keeps going until nothing is left to collect: reactors released by what it despawned go too
        let before = std::mem::take(&mut self.gc_before);
        // (a reactor released *during* the pass -- by an entity the pass despawned -- may go with this pass or with the next one:
        // "the first garbage collection after" its last trigger disappeared is the next one)
        // (a collection requested from inside a tree or a batch may run nested inside the despawn of the very thing an enclosing
        // collection is taking, see below: then the verdict waits for the end of the step)
        let taking = self.gc_taking.clone();
        let mut later = Vec::new();
        for (i, t) in self.insts.iter_mut().enumerate()
        {
            if t.doomed && t.alive && !t.busy && before.get(i).copied().unwrap_or(true)
            {
                if t.real.map(|r| taking.contains(&r)).unwrap_or(false) { later.push(i); } else { t.alive = false; }
            }
        }
        if !later.is_empty() { self.stats.gc_nested_deferred += 1; }
        self.gc_overdue_insts.extend(later);
        for e in std::mem::take(&mut self.gc_must)
        {
            if self.ents[e].alive
            {
                // A collection requested from inside a reaction tree or a batch may itself run inside the flush that Bevy performs at
                // the start of `World::despawn` -- of the very entity an enclosing collection is busy taking. It then finds nothing
                // to do and the enclosing one finishes the job right after: judged when the step is over.
                if self.being_taken(e) { self.gc_overdue.push(e); self.stats.gc_nested_deferred += 1; continue; }
                let bits = self.real(e);
                if self.stale_take_seen { fail!(self, "C10", "autodespawn-leak", &["C18"], "entity {bits:#x} survived a garbage collection although every clone of its signal had been dropped before the collection started (the pass had received a notification for something already gone before)"); }
                fail!(self, "C10", "autodespawn-leak", &[], "entity {bits:#x} survived a garbage collection although every clone of its signal had been dropped before the collection started");
            }
        }
        Ok(())
    }

    //---------------------------------------------------------------------------------------------------------------
    // payload ledger

    fn payload_issue(&mut self, id: u32)
    {
        if self.payloads.get(&id).map(|p| p.raced).unwrap_or(false) { return; }
        self.stats.payloads += 1;
        self.payloads.insert(id, Payload { applied: false, dropped: false, unresolved: Vec::new(), must_drop_now: false, holds: None, raced: false });
    }

    /// A raced payload (see `Payload::raced`) that was dropped before the pending commands were applied: the event is over, whoever
    /// registered through those commands does not hear of it. Only legitimate if nobody had to react.
    fn payload_raced_and_gone(&mut self, id: u32, list: &[Delivery]) -> Res<bool>
    {
        let Some(p) = self.payloads.get(&id) else { return Ok(false) };
        if !(p.raced && p.dropped) { if let Some(p) = self.payloads.get_mut(&id) { p.raced = false; } return Ok(false); }
        if let Some(d) = list.iter().find(|d| !d.optional)
        {
            let t = d.target;
            fail!(self, "C05", "drop-too-early", &["C01"], "payload {id:#x} was dropped although instance {t} has to react to it");
        }
        Ok(true)
    }

    /// The payload takes one of the harness's clones of signal `k` with it (if the harness holds one).
    fn payload_take_signal(&mut self, id: u32, k: u8)
    {
        let k = k as usize % 4;
        if self.sig_harness[k] > 0
        {
            self.sig_harness[k] -= 1;
            if let Some(p) = self.payloads.get_mut(&id) { p.holds = Some(k); }
        }
    }

    fn payload_apply(&mut self, id: u32, readers: &[Delivery]) -> Res<()>
    {
        let dropped = self.payloads.get(&id).map(|p| p.dropped).unwrap_or(false);
        if dropped && self.payloads.get(&id).map(|p| p.raced).unwrap_or(false) { return Ok(()); }
        if dropped { fail!(self, "C05", "drop-too-early", &[], "payload {id:#x} was dropped before its send command was applied"); }
        let p = self.payloads.get_mut(&id).unwrap();
        p.applied = true;
        p.unresolved = readers.iter().map(|d| (d.target, d.optional)).collect();
        if readers.is_empty()
        {
            p.must_drop_now = true;
            self.pending_immediate_drop = Some(id);
            self.stats.payload_zero_listeners += 1;
        }
        Ok(())
    }

    fn payload_resolve(&mut self, d: &Delivery)
    {
        if let Some(id) = d.cause.payload()
        {
            if let Some(p) = self.payloads.get_mut(&id)
            {
                if let Some(pos) = p.unresolved.iter().position(|(i, o)| *i == d.target && *o == d.optional) { p.unresolved.remove(pos); }
                else if let Some(pos) = p.unresolved.iter().position(|(i, _)| *i == d.target) { p.unresolved.remove(pos); }
            }
        }
    }

    /// At the end of a root tree / step: everything fully read must have been dropped.
    fn payload_deadline(&mut self, what: &str, all: bool) -> Res<()>
    {
        // polled reactions may still run inside the command that is finishing; then process floating events
        if !all { self.poll_point()?; }
        let _ = self.peek()?;
        let mut bad: Vec<u32> = self.payloads.iter().filter(|(_, p)| !p.dropped && p.applied && (all || p.unresolved.is_empty())).map(|(id, _)| *id).collect();
        bad.sort();
        if let Some(id) = bad.first()
        {
            // a run nothing accounts for comes first: report that, it is the earlier deviation
            if let Some(Ev::Body { .. }) = self.peek()? { self.unexpected(what)?; }
            fail!(self, "C05", "drop-missing", &["C18"], "payload {id:#x} still not dropped at {what}");
        }
        if all
        {
            let mut never: Vec<u32> = self.payloads.iter().filter(|(_, p)| !p.dropped && !p.applied).map(|(id, _)| *id).collect();
            never.sort();
            if let Some(id) = never.first() { fail!(self, "C05", "drop-missing", &["C18"], "payload {id:#x} was created but neither delivered nor dropped at {what}"); }
            self.payloads.retain(|_, p| !p.dropped);
        }
        Ok(())
    }

    //---------------------------------------------------------------------------------------------------------------
    // deliveries

    fn mk(&mut self, target: Inst, cause: Cause, optional: bool, holds: Option<RegId>) -> Delivery
    {
        self.seq += 1;
        self.stats.deliveries += 1;
        Delivery { target, cause, optional, holds, sender: self.sender, seq: self.seq, blocked_by: 0, iss: self.cur_iss, tainted: false }
    }

    fn removal_listeners_now(&self, ent: EntId, c: C) -> Vec<Inst>
    {
        let mut now: Vec<Inst> = Vec::new();
        if self.ents[ent].alive { now.extend(self.ents[ent].ereg.iter().filter(|r| r.kind == EKind::Rem(c)).map(|r| r.inst)); }
        now.extend(self.tables.get(&Key::Rem(c)).map(|v| v.iter().map(|(i, _)| *i).collect::<Vec<_>>()).unwrap_or_default());
        now
    }

    fn inst_of(&self, bits: u64) -> Option<Inst>
    {
        self.insts.iter().position(|t| t.real == Some(bits)).map(|i| i as Inst)
    }

    fn peek_runner(&mut self) -> Res<Option<(u8, u64)>>
    {
        Ok(match self.peek()? { Some(Ev::Runner(k, e)) => Some((*k, *e)), _ => None })
    }

    fn at_enter(&mut self) -> Res<bool>
    {
        Ok(matches!(self.peek_runner()?, Some((k, _)) if k == RK_ENTER || k == RK_ENTER_ROOT))
    }

    /// The pending removal / despawn event that accounts for a reaction of `inst` showing sample `s`, if any.
    /// Events for which the reactor must react are served before events it merely may be told about.
    fn find_polled(&self, inst: Inst, s: &Sample) -> Option<usize>
    {
        // pass 0: obligations whose deadline is the end of the current tree; pass 1: other obligations; pass 2: optional
        for pass in 0..3
        {
            for (i, p) in self.polled.iter().enumerate()
            {
                let hit = match p.kind
                {
                    PKind::Removal(c) => s.rem[c.idx()] == Some(self.real(p.ent)),
                    PKind::Despawn => s.d == Some(self.real(p.ent)),
                };
                if !hit { continue; }
                let must = !p.closed && p.must.iter().any(|(m, _)| *m == inst);
                if pass == 0 { if must && p.in_tree { return Some(i); } continue; }
                if pass == 1 { if must { return Some(i); } continue; }
                // one reaction per registration: a reactor registered entity-scoped and type-wide reacts twice
                let done = p.delivered.iter().filter(|d| **d == inst).count();
                let eligible = p.extra.iter().any(|(m, _)| *m == inst)
                    || match p.kind { PKind::Removal(c) => self.removal_listeners_now(p.ent, c).iter().filter(|l| **l == inst).count() > done, PKind::Despawn => false };
                if eligible { return Some(i); }
            }
        }
        None
    }

    /// Turns a pending event's obligation for `inst` into a delivery.
    /// C12 for removals: one run removed the same component from two entities, `inst` must react to both — it must be told
    /// about the earlier removal first (a poll that sees the later event has seen the earlier one, and reactions are queued
    /// entity by entity in event order).
    fn removal_order_ok(&self, i: usize, inst: Inst) -> Option<EntId>
    {
        let later = &self.polled[i];
        if matches!(later.kind, PKind::Despawn)
        {
            // despawns caused by one run reach a reactor that watches both entities in the order they happened (an entity is
            // despawned once, so there is no ambiguity)
            for j in 0..i
            {
                let e = &self.polled[j];
                if !matches!(e.kind, PKind::Despawn) || e.closed || e.sender != later.sender || e.ent == later.ent || e.sender.0 == 0xFE || e.epoch != later.epoch { continue; }
                if e.must.iter().any(|(m, _)| *m == inst) { return Some(e.ent); }
            }
            return None;
        }
        let PKind::Removal(c) = later.kind else { return None };
        // events on the same entity are indistinguishable in the trace (remove, re-insert, remove): the attribution of a reaction
        // to one of them is a guess, so only events that are the sole pending one for their entity are judged
        // (closed events count too: a removal checker created later still reads removals that happened before it existed, N4)
        let unique = |k: usize| !self.polled.iter().enumerate().any(|(x, p)| x != k && p.ent == self.polled[k].ent && matches!(p.kind, PKind::Removal(c2) if c2 == c));
        if !unique(i) { return None; }
        for j in 0..i
        {
            if !unique(j) { continue; }
            let e = &self.polled[j];
            // (only when no poll can have happened between the two events: then every poll that sees the later one sees both and
            // queues their reactions in event order. With a poll in between, the reaction to the earlier event may already be queued
            // and be overtaken: its own runner polls before it runs -- C09 lets polled reactions run at any later boundary)
            if e.closed || e.sender != later.sender || e.ent == later.ent || e.sender.0 == 0xFE || e.epoch != later.epoch { continue; }
            if !matches!(e.kind, PKind::Removal(c2) if c2 == c) { continue; }
            if e.must.iter().any(|(m, _)| *m == inst) && self.removal_listeners_now(e.ent, c).contains(&inst) { return Some(e.ent); }
        }
        None
    }

    fn take_polled(&mut self, i: usize, inst: Inst) -> Delivery
    {
        self.polled[i].delivered.push(inst);
        let (kind, ent) = (self.polled[i].kind.clone(), self.polled[i].ent);
        let holds = self.polled[i].must.iter().find(|(m, _)| *m == inst).and_then(|(_, r)| *r);
        if let Some(pos) = self.polled[i].must.iter().position(|(m, _)| *m == inst) { self.polled[i].must.remove(pos); }
        else if let Some(pos) = self.polled[i].extra.iter().position(|(m, _)| *m == inst)
        {
            // the reaction whose handle was uncertain did run: its handle is released (for certain) when it completes
            let (_, reg) = self.polled[i].extra.remove(pos);
            if let Some(r) = reg { self.resolve_uncertain.push(r); }
        }
        let cause = match kind { PKind::Removal(c) => Cause::Rem(c, ent), PKind::Despawn => Cause::Despawn(ent) };
        self.stats.polled_reactions += 1;
        // a polled reaction is a command of its own: it is not "sent" by the run that happens to be active
        let saved = self.sender;
        self.sender = (0xFE, 0);
        let d = self.mk(inst, cause, false, holds);
        self.sender = saved;
        d
    }

    /// Deadline for polled events (`only_in_tree`: the end of a root tree; otherwise a poll outside any tree): every
    /// reactor registered since the event happened, still registered and alive, must have reacted.
    fn flush_polled(&mut self, only_in_tree: bool) -> Res<()>
    {
        let mut i = 0;
        while i < self.polled.len()
        {
            let p = self.polled[i].clone();
            if p.closed || (only_in_tree && !p.in_tree) { i += 1; continue; }
            // Happened after the last poll of the tree (a command that a `DeferredWorld` system left on the world's queue was applied
            // by the closing flush): there was no "later system-command boundary of the same tree"; the next poll -- the next
            // tree's or the scheduled one -- is its deadline.
            // (the same holds for an explicit or scheduled poll: what its own closing flush caused, it has not seen)
            if p.sure == self.sure_epoch { if only_in_tree { self.polled[i].in_tree = false; } self.stats.polled_after_last_poll += 1; i += 1; continue; }
            for (inst, reg) in &p.must
            {
                let t = &self.insts[*inst as usize];
                let still_registered = match p.kind { PKind::Removal(c) => self.removal_listeners_now(p.ent, c).contains(inst), PKind::Despawn => true };
                if t.alive && !t.doomed && !t.limbo && !t.busy && still_registered
                {
                    let ev = self.peek()?.cloned();
                    let cause = match p.kind { PKind::Removal(c) => Cause::Rem(c, p.ent), PKind::Despawn => Cause::Despawn(p.ent) };
                    // raised inside a tree: "may run at any later system-command boundary of the same tree" (C09) is violated too
                    // (a one-off reactor "runs exactly once, on the first of its triggers to fire", C15)
                    if self.prog.insts[*inst as usize].origin == Origin::Once { fail!(self, "C08", "polled-missing", &["C01", "C02", "C15"], "no run of the one-off reactor {inst} for {cause:?} by its deadline; next observed: {ev:?}"); }
                    if p.in_tree { fail!(self, "C08", "polled-missing", &["C01", "C02", "C09", "C11"], "no run of instance {inst} for {cause:?} by the end of the tree that caused it (something is still waiting to run when the outermost flush returns); next observed: {ev:?}"); }
                    // (a removal / despawn trigger of some reactor was revoked earlier in this run: "registrations of other reactors and
                    // other triggers ... keep working", C06)
                    if self.revoked_polled { fail!(self, "C08", "polled-missing", &["C01", "C02", "C06"], "no run of instance {inst} for {cause:?} by its deadline (a removal / despawn trigger was revoked earlier in this run; that must not affect other registrations); next observed: {ev:?}"); }
                    fail!(self, "C08", "polled-missing", &["C01", "C02"], "no run of instance {inst} for {cause:?} by its deadline; next observed: {ev:?}");
                }
                if let Some(r) = reg { self.drop_handle(*r); self.stats.skipped_dead += 1; }
            }
            match p.kind
            {
                PKind::Removal(_) => { self.polled[i].closed = true; self.polled[i].in_tree = false; self.polled[i].must.clear(); i += 1; }
                PKind::Despawn => { self.polled.remove(i); }
            }
        }
        Ok(())
    }

    /// Delivers the reactions of one trigger (siblings): each is one invocation of the system-command runner, in
    /// whatever order the implementation chose (N1). Polled reactions may be interleaved.
    fn process_deliveries(&mut self, mut list: Vec<Delivery>) -> Res<()>
    {
        let mut first = true;
        while !list.is_empty()
        {
            if self.at_enter()?
            {
                let before = list.len();
                let head = list[0].seq;
                self.invocation(Some(&mut list), None)?;
                if first && list.len() < before && list.iter().any(|d| d.seq == head) { self.stats.sibling_reorder += 1; }
                first = false;
                continue;
            }
            // commands an exclusive body left on the world's queue are applied inside the call that triggers these reactions: after
            // the framework has worked out who reacts, before the first reaction runs
            if !self.wq.is_empty() { let n = self.wq.len(); self.drain_wq()?; if self.wq.len() < n { self.stats.excl_flushed_mid_trigger += 1; continue; } }
            // no runner invocation for the remaining deliveries
            // (a delivery whose target is gone "runs zero times": whether the runner is entered for it at all is not the
            // properties' business, only that whatever it carried is released)
            let mut i = 0;
            while i < list.len()
            {
                if !self.insts[list[i].target as usize].alive { let d = list.remove(i); self.skip(d, false); } else { i += 1; }
            }
            if list.is_empty() { return Ok(()); }
            if list.iter().all(|d| d.optional)
            {
                for d in list.drain(..) { self.stats.optional_skipped += 1; self.payload_resolve(&d); }
                return Ok(());
            }
            let d = list.iter().find(|d| !d.optional).unwrap().clone();
            return self.missing(&d);
        }
        Ok(())
    }

    fn missing(&mut self, d: &Delivery) -> Res<()>
    {
        let ev = self.peek()?.cloned();
        match d.cause
        {
            Cause::Rem(..) | Cause::Despawn(_) => fail!(self, "C08", "polled-missing", &["C01", "C02"], "instance {} was not scheduled for {:?}; next observed: {:?}", d.target, d.cause, ev),
            Cause::Manual | Cause::SysEvent(..) => fail!(self, "C02", "missing-run", &["C09"], "instance {} was not scheduled for {:?}; next observed: {:?}", d.target, d.cause, ev),
            // (a despawned reactor is still registered: a reaction scheduled for it must "leave all other registrations working", C18)
            Cause::Ins(..) | Cause::Mut(..) | Cause::Resource(_) | Cause::Broadcast(..) | Cause::EntityEvent(..) if self.tables.values().any(|v| v.iter().any(|(i, _)| !self.insts[*i as usize].alive)) => fail!(self, "C01", "missing-reaction", &["C02", "C09", "C14", "C18"], "instance {} was not scheduled for {:?} (a despawned reactor is still registered for something: that must not disturb the others); next observed: {:?}", d.target, d.cause, ev),
            // (a reactor some of whose triggers were revoked earlier: "other triggers of the same reactor ... keep working", C06)
            Cause::Ins(..) | Cause::Mut(..) | Cause::Resource(_) if !self.insts[d.target as usize].revoked_keys.is_empty() => fail!(self, "C01", "missing-reaction", &["C02", "C09", "C14", "C06"], "instance {} (some of whose other triggers were revoked earlier) was not scheduled for {:?}; next observed: {:?}", d.target, d.cause, ev),
            Cause::Ins(..) | Cause::Mut(..) | Cause::Resource(_) => fail!(self, "C01", "missing-reaction", &["C02", "C09", "C14"], "instance {} was not scheduled for {:?} (accessor / trigger call must cause one trigger); next observed: {:?}", d.target, d.cause, ev),
            _ if !self.insts[d.target as usize].revoked_keys.is_empty() => fail!(self, "C01", "missing-reaction", &["C02", "C09", "C06"], "instance {} (some of whose other triggers were revoked earlier) was not scheduled for {:?}; next observed: {:?}", d.target, d.cause, ev),
            _ => fail!(self, "C01", "missing-reaction", &["C02", "C09"], "instance {} was not scheduled for {:?}; next observed: {:?}", d.target, d.cause, ev),
        }
    }

    fn skip(&mut self, d: Delivery, was_postponed: bool)
    {
        self.stats.skipped_dead += 1;
        if was_postponed { self.stats.skipped_dead_postponed += 1; }
        if d.cause.payload().is_some() { self.stats.payload_abort_release += 1; }
        self.payload_resolve(&d);
        if let Some(reg) = d.holds { self.drop_handle(reg); }
        if self.insts[d.target as usize].once_fired { self.stats.once_retrigger_after_fire += 1; }
    }

    fn postpone(&mut self, mut d: Delivery)
    {
        d.blocked_by = self.insts[d.target as usize].runs;
        self.stats.postponed += 1;
        let n = self.postponed.iter().filter(|x| x.target == d.target).count() as u64 + 1;
        if n > self.stats.max_postponed_one_target { self.stats.max_postponed_one_target = n; }
        self.postponed.push(d);
    }

    /// One delivery: one runner invocation.
    fn deliver(&mut self, d: Delivery) -> Res<()>
    {
        self.process_deliveries(vec![d])
    }

    /// Nested invocations at a poll point of the current invocation (they can only be polled reactions).
    fn poll_point(&mut self) -> Res<()>
    {
        loop
        {
            if self.at_enter()? { self.invocation(None, None)?; continue; }
            if !self.wq.is_empty() { let n = self.wq.len(); self.drain_wq()?; if self.wq.len() < n { continue; } }
            return Ok(());
        }
    }

    /// One invocation of the system-command runner, from its `Enter` event (at the cursor) to its `Exit`.
    /// `list`: sibling deliveries one of which it may serve. `replay_for`: set in the post-run stage of an execution of
    /// that system, where postponed deliveries for it are served. Anything else it serves is a polled reaction.
    fn invocation(&mut self, list: Option<&mut Vec<Delivery>>, replay_for: Option<(Inst, u32)>) -> Res<()>
    {
        let Some((k, e)) = self.peek_runner()? else { unreachable!() };
        self.advance()?;
        let root = self.tree_depth == 0;
        if (k == RK_ENTER_ROOT) != root
        {
            fail!(self, "C11", "tree-bookkeeping-residue", &["C02"], "a system command was entered as {} although the spec is {} a reaction tree", if k == RK_ENTER_ROOT { "the root of a new tree" } else { "nested" }, if root { "outside" } else { "inside" });
        }
        // entry poll (the tree counter is only incremented when a system actually runs, so reactions polled here by a
        // root invocation are roots themselves)
        self.poll_point()?;
        let known = self.inst_of(e);
        let Some((k2, e2)) = self.peek_runner()? else { return self.unexpected("outcome of the system command (run / postpone / abort)"); };
        if e2 != e || !(k2 == RK_RUN || k2 == RK_POSTPONE || k2 == RK_ABORT) { return self.unexpected("outcome of the system command (run / postpone / abort)"); }
        self.advance()?;
        // candidates among the explicit deliveries
        // (systems whose entity the harness never learnt -- created by `on`, world reactors -- are matched by state)
        let pick_list = |me: &Self, list: &Vec<Delivery>, inst: Option<Inst>, want_busy: bool| -> (Option<usize>, bool) {
            match inst
            {
                Some(i) => (list.iter().position(|d| d.target == i), true),
                None =>
                {
                    let c: Vec<usize> = list.iter().enumerate().filter(|(_, d)| me.insts[d.target as usize].real.is_none()).map(|(i, _)| i).collect();
                    let fits = |i: &usize| { let t = &me.insts[list[*i].target as usize]; if want_busy { t.busy } else { !t.alive || t.doomed || t.limbo } };
                    (c.iter().copied().find(|i| fits(i)).or(c.first().copied()), c.len() == 1)
                }
            }
        };
        match k2
        {
            RK_RUN =>
            {
                if let Some(i) = known
                {
                    if self.insts[i as usize].once_fired
                    {
                        fail!(self, "C15", "once-entity-leaked", &["C07", "C18"], "the runner found the spent one-off reactor {i} still in place and started it again: after its single run its entity must be gone");
                    }
                }
                let Some(Ev::Body { inst, s, .. }) = self.peek()?.cloned() else { return self.unexpected("body of the system that was just started"); };
                match self.insts[inst as usize].real
                {
                    Some(r) if r != e => fail!(self, "C02", "wrong-system-ran", &["C01"], "the runner started system entity {e:#x} but instance {inst} (entity {r:#x}) ran"),
                    Some(_) => {}
                    None => { if known.is_some() { fail!(self, "C02", "wrong-system-ran", &["C01"], "the runner started system entity {e:#x} but instance {inst} ran"); } self.insts[inst as usize].real = Some(e); }
                }
                // which delivery is it?
                let mut d: Option<Delivery> = None;
                let mut list = list;
                if let Some(l) = list.as_deref_mut()
                {
                    if let Some(pos) = l.iter().position(|d| d.target == inst && self.expected_sample(&d.cause) == s) { d = Some(l.remove(pos)); }
                }
                if d.is_none() && replay_for.map(|r| r.0) == Some(inst)
                {
                    // among indistinguishable candidates prefer one that keeps per-sender FIFO satisfiable (N5 leaves the rest open)
                    let cands: Vec<usize> = self.postponed.iter().enumerate().filter(|(_, p)| p.target == inst && self.postponed_matches(p, inst, &s)).map(|(i, _)| i).collect();
                    let admissible = |me: &Self, i: usize| { let d = &me.postponed[i]; !me.postponed.iter().any(|o| o.sender == d.sender && o.sender.0 != 0xFE && o.target == d.target && o.seq < d.seq) };
                    let exec = replay_for.map(|r| r.1).unwrap_or(0);
                    // entries blocked by the most recent execution have the earliest deadline (its invocation is innermost)
                    let _ = exec;
                    let mut order = cands.clone();
                    order.sort_by_key(|i| (std::cmp::Reverse(self.postponed[*i].blocked_by), !admissible(self, *i), self.postponed[*i].seq));
                    let hit = order.first().copied();
                    // several candidates that carry no payload are indistinguishable: which one ran is a guess, none of them is
                    // judged for order afterwards
                    if cands.len() > 1 { for c in &cands { if self.postponed[*c].cause.payload().is_none() { self.postponed[*c].tainted = true; } } }
                    if let Some(i) = hit
                    {
                        let mut p = self.postponed.remove(i);
                        if p.cause == Cause::PolledUnknown
                        {
                            let Some(pi) = self.find_polled(inst, &s) else { unreachable!() };
                            let seq = p.seq;
                            p = self.take_polled(pi, inst);
                            p.seq = seq;
                        }
                        self.stats.replayed += 1;
                        d = Some(p);
                    }
                }
                if d.is_none()
                {
                    if let Some(pi) = self.find_polled(inst, &s)
                    {
                        if let Some(earlier) = self.removal_order_ok(pi, inst)
                        {
                            let (a, b) = (self.real(earlier), self.real(self.polled[pi].ent));
                            fail!(self, "C12", "removal-order-violated", &["C09"], "instance {inst} reacted to the removal / despawn of {b:#x} before that of {a:#x}, which the same run caused earlier and which it must also react to");
                        }
                        d = Some(self.take_polled(pi, inst));
                    }
                }
                if d.is_none()
                {
                    // a delivery for another registration of the same function served by this instance's system?
                    if let Some(l) = list.as_deref()
                    {
                        if let Some(other) = l.iter().find(|x| x.target != inst && self.expected_sample(&x.cause) == s && self.insts[x.target as usize].real.map(|r| r == e).unwrap_or(true) && self.prog.insts[x.target as usize].origin == self.prog.insts[inst as usize].origin)
                        {
                            let o = other.target;
                            fail!(self, "C13", "registration-shares-system", &["C01"], "the reaction for instance {o} was run by the system of instance {inst}: two registrations of the same function share one system state");
                        }
                    }
                }
                let Some(d) = d else
                {
                    // same instance expected, different data: the run happened but saw the wrong event data
                    let pending: Option<Cause> = list.as_deref().and_then(|l| l.iter().find(|d| d.target == inst).map(|d| d.cause.clone()))
                        .or_else(|| if replay_for.map(|r| r.0) == Some(inst) { self.postponed.iter().find(|p| p.target == inst).map(|p| p.cause.clone()) } else { None });
                    if let Some(c) = pending
                    {
                        let want = self.expected_sample(&c);
                        fail!(self, "C03", "wrong-event-data", &["C12", "C05", "C04", "C11"], "instance {inst} ran for {c:?} (or another pending delivery) but its readers show {s:?}; expected e.g. {want:?}");
                    }
                    return self.unexpected_body(inst, s, "a delivery that accounts for this run");
                };
                if self.insts[inst as usize].busy_unknown { let t = &mut self.insts[inst as usize]; t.busy = false; t.busy_unknown = false; self.stats.dw_self_ran += 1; }
                let t = &self.insts[inst as usize];
                if t.busy { fail!(self, "C09", "postponed-ran-too-early", &["C02"], "instance {inst} ran for {:?} while it is already executing", d.cause); }
                if t.once_fired { fail!(self, "C15", "once-ran-twice", &["C18"], "one-off reactor {inst} ran again, for {:?}", d.cause); }
                if !t.alive { fail!(self, "C18", "ran-dead-target", &["C07", "C02"], "instance {inst} ran for {:?} after it was despawned", d.cause); }
                if d.optional || t.doomed || t.limbo { self.stats.optional_taken += 1; }
                self.tree_depth += 1;
                if root { self.stats.roots += 1; for t in self.insts.iter_mut() { t.kinds_this_tree = 0; } }
                self.run(d, e, root)?;
            }
            RK_POSTPONE =>
            {
                // the target is executing: its callback is taken
                let inst = match known { Some(i) => Some(i), None => None };
                let mut d = None;
                let mut list = list;
                let mut bind = true;
                if let Some(l) = list.as_deref_mut() { let (pos, sure) = pick_list(self, l, inst, true); bind = sure; if let Some(pos) = pos { d = Some(l.remove(pos)); } }
                let d = match (d, inst)
                {
                    (Some(d), _) => d,
                    (None, Some(i)) => { let saved = self.sender; self.sender = (0xFE, 0); let d = self.mk(i, Cause::PolledUnknown, false, None); self.sender = saved; d }
                    (None, None) => return bail("a system with an entity unknown to the harness was postponed; cannot attribute it"),
                };
                if bind && self.insts[d.target as usize].real.is_none() { self.insts[d.target as usize].real = Some(e); }
                let t = &self.insts[d.target as usize];
                if !t.busy
                {
                    fail!(self, "C02", "postponed-although-idle", &["C09", "C11"], "delivery {:?} to instance {} was postponed although that system is not executing", d.cause, d.target);
                }
                if t.busy_unknown { self.stats.dw_self_postponed += 1; }
                self.postpone(d);
            }
            _ =>
            {
                // aborted: the target does not exist (any more)
                let inst = known;
                let mut d = None;
                let mut list = list;
                let mut bind = true;
                if let Some(l) = list.as_deref_mut() { let (pos, sure) = pick_list(self, l, inst, false); bind = sure; if let Some(pos) = pos { d = Some(l.remove(pos)); } }
                if d.is_none()
                {
                    if let (Some((r, _)), Some(i)) = (replay_for, inst)
                    {
                        if r == i { if let Some(pos) = self.postponed.iter().position(|p| p.target == i) { d = Some(self.postponed.remove(pos)); self.stats.skipped_dead_postponed += 1; } }
                    }
                }
                if let Some(d) = &d { if bind && self.insts[d.target as usize].real.is_none() { self.insts[d.target as usize].real = Some(e); } }
                let target = d.as_ref().map(|d| d.target).or(inst);
                if let Some(i) = target
                {
                    let t = &mut self.insts[i as usize];
                    // a ref-counted system with no trigger left is collected even while it is executing
                    if t.alive && (t.doomed || t.limbo) { t.alive = false; }
                    let t = &self.insts[i as usize];
                    if t.alive
                    {
                        fail!(self, "C02", "aborted-although-alive", &["C07", "C13"], "a delivery to instance {i} was dropped as if the system were gone, but nothing despawned it{}", if t.busy { " (it is executing)" } else { "" });
                    }
                }
                if let Some(d) = d { self.skip(d, false); }
                // the abort path polls as well
                self.poll_point()?;
            }
        }
        // end of the invocation
        if k2 != RK_RUN { self.expect_runner(RK_EXIT, e, "return of the system command runner")?; }
        Ok(())
    }

    fn expect_runner(&mut self, k: u8, e: u64, what: &str) -> Res<()>
    {
        match self.peek_runner()?
        {
            Some((k2, e2)) if k2 == k && e2 == e => self.advance(),
            _ => self.unexpected(what),
        }
    }

    fn end_invocation(&mut self, root: bool) -> Res<()>
    {
        self.tree_depth -= 1;
        if root
        {
            // (entities released inside the tree are usually collected before it ends -- every system command boundary collects --
            // but *where* collections happen is the implementation's choice: C10 only speaks about the first collection after)
            self.doomed_in_tree.clear();
            self.flush_polled(true)?;
            if let Some(p) = self.postponed.first()
            {
                let p = p.clone();
                fail!(self, "C02", "postponed-never-resolved", &["C11"], "delivery {:?} to instance {} still postponed at the end of the tree", p.cause, p.target);
            }
        }
        Ok(())
    }

    fn postponed_matches(&self, p: &Delivery, inst: Inst, s: &Sample) -> bool
    {
        if p.cause == Cause::PolledUnknown { return (s.rem.iter().flatten().next().is_some() || s.d.is_some()) && self.find_polled(inst, s).is_some(); }
        self.expected_sample(&p.cause) == *s
    }

    /// The body of `d` is at the cursor; `e` is the system entity, `root` whether this invocation started the tree.
    fn run(&mut self, d: Delivery, e: u64, root: bool) -> Res<()>
    {
        let Some(Ev::Body { inst, n, cap, s, chg }) = self.peek()?.cloned() else { unreachable!() };
        self.advance()?;
        self.stats.bodies += 1;
        let ti = inst as usize;
        if s.second_take { fail!(self, "C04", "second-take-succeeded", &[], "instance {inst} took a system event payload twice"); }
        self.insts[ti].runs += 1;
        if n != self.insts[ti].runs || cap != n
        {
            fail!(self, "C13", "local-reset", &["C17"], "instance {inst}: run #{} sees Local={n} captured={cap}", self.insts[ti].runs);
        }
        let n = self.insts[ti].runs;
        // a system's state is created once, when it first runs -- and never again (every actor announces the creation of its state)
        let started = self.insts.iter().filter(|t| t.runs >= 1).count() as u64;
        if self.created_seen != started
        {
            fail!(self, "C13", "state-created-again", &["C17"], "{} system states have been created by the time instance {inst} starts its run #{n}, but only {started} systems have ever run: some system's state was built more than once", self.created_seen);
        }
        // the change-detection baseline ("last run" tick) is system state too: a resource never touched since setup is new
        // to a system exactly once
        if chg != (n == 1)
        {
            fail!(self, "C13", "change-detection-reset", &["C17"], "instance {inst}: run #{n} sees a never-touched resource as changed={chg} (the system's last-run tick must persist like its Locals)");
        }
        // per-sender FIFO (C12)
        // (only deliveries that carry a unique payload id are distinguishable; manual runs and trigger reactions of one
        // kind are interchangeable, so their relative order is not observable)
        if d.sender.0 != 0xFE && !d.tainted
        {
            let has_payload = d.cause.payload().is_some();
            if has_payload { self.stats.fifo_pairs_checked += 1; }
            let last = self.fifo.entry((d.sender, d.target)).or_insert((0, false));
            // judged in *issue* order: an exclusive body may queue an event and then apply a command directly; the direct one was
            // still sent later. At least one of the two must carry a payload (see above).
            if d.iss < last.0 && (has_payload || last.1)
            {
                fail!(self, "C12", "fifo-violated", &["C03", "C09"], "instance {inst} processed {:?} after a delivery the same run sent later", d.cause);
            }
            if d.iss >= last.0 { *last = (d.iss, has_payload); }
        }
        let before = self.insts[ti].kinds_this_tree;
        self.insts[ti].kinds_this_tree |= d.cause.kind_bit();
        if before != 0 && before != self.insts[ti].kinds_this_tree { self.stats.multi_kind_same_tree += 1; }
        // the reader has started: the payload may be released from here on
        self.payload_resolve(&d);
        self.insts[ti].busy = true;
        self.stack.push(inst);
        if self.stack.len() as u64 > self.stats.max_depth { self.stats.max_depth = self.stack.len() as u64; }
        let saved_sender = self.sender;
        self.sender = (inst, n);

        let prog: &'a Program = self.prog;
        let def = &prog.insts[ti];
        let excl = matches!(def.flavour, Flavour::Exclusive | Flavour::ExclusiveWarn);
        if excl { self.stats.excl_bodies += 1; }
        if let Origin::EntityWorld(k) = def.origin { self.ewr_local(inst, k, &d)?; }
        let mut held = d.holds;
        // an exclusive system's cleanup is the first command on the world queue: it runs at the first flush inside the body
        if excl { if let Some(reg) = held.take() { self.drop_handle(reg); } }
        let script: &'a [Op] = prog.insts[ti].script(n);
        // (an exclusive body that reads its event through `syscall_once` flushes the world's queue right there: commands that
        // enclosing exclusive bodies still had pending are applied before this body's first op)
        if excl && !self.wq.is_empty() { self.drain_wq()?; }
        let dw = def.flavour == Flavour::DeferredW;
        if dw { self.stats.dw_bodies += 1; }
        let (issued, err) = self.issue_script(script, inst, n, excl, dw)?;
        match self.peek()?
        {
            Some(Ev::BodyEnd { inst: i2, n: n2, err: e2 }) if *i2 == inst && *n2 == n && *e2 == err => self.advance()?,
            _ => { self.unexpected(&format!("end of body of instance {inst} run {n}"))?; }
        }
        if err { self.stats.err_returns += 1; }
        // a despawn reaction's handle is released by the cleanup that runs between the body and its commands
        if let Some(reg) = held { self.drop_handle(reg); }
        for r in std::mem::take(&mut self.resolve_uncertain)
        {
            let reg = &mut self.regs[r];
            reg.uncertain = reg.uncertain.saturating_sub(1);
            if reg.refcounted && reg.handles == 0 && reg.uncertain == 0
            {
                let i = reg.inst as usize;
                if self.insts[i].alive && !self.insts[i].doomed { self.insts[i].doomed = true; self.insts[i].limbo = false; self.stats.doomed_insts += 1; }
            }
        }
        self.apply_issued(issued)?;
        self.sender = saved_sender;
        self.stack.pop();
        self.insts[ti].busy = false;
        // What a `DeferredWorld` system queued is applied by the first flush after its body: inside the runner's collection (if
        // that despawns anything) while the system is still taken out, or by the closing poll when it is back in place. Which one
        // is not observable, so a command for this very system may be postponed or run until one of them has run.
        let dw_me = (inst, n);
        if dw && self.wq.iter().any(|(_, _, s)| *s == dw_me) { self.insts[ti].busy = true; self.insts[ti].busy_unknown = true; }
        if def.origin == Origin::Once
        {
            // a one-off reactor despawns itself and revokes its triggers after its first run
            self.insts[ti].once_fired = true;
            self.insts[ti].alive = false;
            self.stats.once_fired += 1;
            if let Some(tok) = self.tokens[ti].clone() { self.revoke(tok.inst, &tok.trigs); }
        }
        // post-run stage: polled reactions, then postponed deliveries for this system, until the runner returns
        self.sure_epoch += 1;
        loop
        {
            if dw
            {
                if !self.wq.is_empty() { let len = self.wq.len(); self.drain_wq()?; if self.wq.len() < len { continue; } }
                if self.wq.iter().any(|(_, _, s)| *s == dw_me)
                {
                    // work this execution queued must be complete before anything postponed for it is replayed and before the runner
                    // returns (C09); at the root that is also "every run transitively caused has happened" (C02)
                    let (u, _, _) = self.wq.iter().find(|(_, _, s)| *s == dw_me).cloned().unwrap();
                    self.peek()?;
                    fail!(self, "C09", "own-commands-not-applied", &["C02", "C11"], "instance {inst} (a system that queues through `DeferredWorld`) has finished, but its command {u:#x} is still sitting in the world's command queue when the runner moves on");
                }
                if self.insts[ti].busy_unknown { self.insts[ti].busy = false; self.insts[ti].busy_unknown = false; }
            }
            match self.peek_runner()?
            {
                Some((k, _)) if k == RK_ENTER || k == RK_ENTER_ROOT =>
                {
                    let before = self.seq;
                    self.invocation(None, Some((inst, n)))?;
                    if self.postponed.iter().any(|x| x.target == inst && x.seq > before && x.blocked_by != n) { self.stats.nested_replay += 1; }
                }
                Some((k, e2)) if k == RK_DISCARD =>
                {
                    // runs with an injected storage fault are not judged from the fault on, so this is a live system's command
                    let who = self.inst_of(e2);
                    fail!(self, "C02", "postponed-discarded", &["C01", "C09", "C11"], "a postponed command for system entity {e2:#x} (instance {who:?}) was thrown away at the end of the tree instead of being run");
                }
                Some((k, e2)) if k == RK_ROOT_EXIT && e2 == e =>
                {
                    if !root { fail!(self, "C11", "tree-bookkeeping-residue", &["C02"], "a nested system command reset the tree bookkeeping"); }
                    self.advance()?;
                }
                Some((k, e2)) if k == RK_EXIT && e2 == e => { self.advance()?; break; }
                _ => { self.unexpected(&format!("return of the runner for instance {inst}"))?; }
            }
        }
        // everything that was postponed because of this execution must have run by now (C02, C09)
        if let Some(p) = self.postponed.iter().find(|p| p.target == inst && p.blocked_by == n)
        {
            let p = p.clone();
            if self.insts[ti].alive && !self.insts[ti].doomed && !self.insts[ti].limbo
            {
                fail!(self, "C09", "postponed-ran-too-late", &["C02"], "delivery {:?} postponed for instance {inst} did not run when the execution that blocked it completed", p.cause);
            }
        }
        self.end_invocation(root)
    }

    fn ewr_local(&mut self, inst: Inst, k: u8, d: &Delivery) -> Res<()>
    {
        self.stats.ewr_bodies += 1;
        let src = match d.cause
        {
            Cause::EntityEvent(_, _, e) | Cause::Ins(_, e) | Cause::Mut(_, e) | Cause::Rem(_, e) => e,
            _ => fail!(self, "C16", "ewr-ran-without-entity", &[], "entity world reactor {inst} ran for {:?}", d.cause),
        };
        let Some(Ev::EwrLocal { inst: i2, src: s2, val, src_alive }) = self.peek()?.cloned() else { return self.unexpected("entity-local observation"); };
        self.advance()?;
        if i2 != inst || s2 != self.real(src)
        {
            fail!(self, "C16", "ewr-wrong-local", &["C03"], "entity world reactor {inst}: EntityLocal names entity {s2:#x}, the event came from {:#x}", self.real(src));
        }
        let e = &mut self.ents[src];
        match (val, e.alive.then_some(()).and(e.ewr[k as usize]))
        {
            (Some(v), Some(want)) =>
            {
                if v != want { fail!(self, "C16", "ewr-wrong-local", &[], "entity world reactor {inst}: local data {v}, expected {want}"); }
                self.ents[src].ewr[k as usize] = Some(want + 100);
            }
            (None, None) => { self.stats.ewr_nodata_ok += 1; let _ = src_alive; }
            (None, Some(want)) => fail!(self, "C16", "ewr-data-dropped-early", &[], "entity world reactor {inst}: no local data for its entity, expected {want}"),
            (Some(v), None) => fail!(self, "C16", "ewr-data-leaked", &[], "entity world reactor {inst}: local data {v} still present after its last trigger was removed"),
        }
        Ok(())
    }

    //---------------------------------------------------------------------------------------------------------------
    // issuing (body time) and applying (command time)

    fn inst_entity_event(&mut self, inst: Inst) -> Res<()>
    {
        match self.peek()?
        {
            Some(Ev::InstEntity { inst: i2, e }) if *i2 == inst => { self.insts[inst as usize].real = Some(*e); self.advance()?; Ok(()) }
            _ => self.unexpected("instance entity announcement"),
        }
    }

    fn set_ret(&mut self, u: u32, want: Option<u8>, what: &str) -> Res<()>
    {
        match self.peek()?
        {
            Some(Ev::SetRet { uid, old }) if *uid == u =>
            {
                if *old != want { fail!(self, "C14", "accessor-return", &[], "{what} returned {old:?}, expected {want:?}"); }
                self.advance()?;
                Ok(())
            }
            _ => self.unexpected("accessor return value"),
        }
    }

    fn issue_script(&mut self, ops: &'a [Op], issuer: u8, run: u32, excl: bool, dw: bool) -> Res<(Vec<(u32, Issued)>, bool)>
    {
        self.issue_script_r(ops, issuer, run, excl, dw, false)
    }

    /// `restricted`: the system has no parameters of its own to act through (it queues through a `DeferredWorld`): ops that need
    /// some are no-ops.
    fn issue_script_r(&mut self, ops: &'a [Op], issuer: u8, run: u32, excl: bool, dw: bool, restricted: bool) -> Res<(Vec<(u32, Issued)>, bool)>
    {
        let mut out = Vec::new();
        if dw
        {
            // everything goes on the world's own command queue and stays there until something flushes it: a collection that
            // despawns something, or the runner's closing poll
            for (idx, op) in ops.iter().enumerate()
            {
                let u = uid(issuer, run, idx);
                let is = self.issue(op, u, true)?;
                self.wq.push_back((u, is, self.sender));
            }
            return Ok((out, false));
        }
        if excl
        {
            // in script order: `Now` ops act immediately, the rest goes on the world's command queue and is applied at the next
            // flush -- the end of the body at the latest, but nearly every world operation flushes that queue first
            let mut mine: Vec<u32> = Vec::new();
            let mut err = false;
            for (idx, op) in ops.iter().enumerate()
            {
                let u = uid(issuer, run, idx);
                if matches!(op, Op::ReturnErr) { err = true; break; }
                if let Op::Now(w) = op
                {
                    match self.peek()? { Some(Ev::Now(x)) if *x == u => self.advance()?, _ => { self.unexpected("immediate op")?; } }
                    self.iss_counter += 1;
                    let saved = self.cur_iss;
                    self.cur_iss = self.iss_counter;
                    self.exec_wop(w, u)?;
                    self.drain_wq()?;
                    self.cur_iss = saved;
                    self.expect_tolerant(|e| matches!(e, Ev::NowEnd(x) if *x == u), "end of immediate op")?;
                }
                else
                {
                    let is = self.issue(op, u, excl)?;
                    self.wq.push_back((u, is, self.sender));
                    mine.push(u);
                }
            }
            // what no flush inside the body has applied is applied after the body returns
            let mut rest = std::collections::VecDeque::new();
            while let Some(e) = self.wq.pop_front() { if mine.contains(&e.0) { out.push((e.0, e.1)); } else { rest.push_back(e); } }
            self.wq = rest;
            return Ok((out, err));
        }
        for (idx, op) in ops.iter().enumerate()
        {
            let u = uid(issuer, run, idx);
            if matches!(op, Op::ReturnErr) { return Ok((out, true)); }
            let is = self.issue(op, u, excl || restricted)?;
            out.push((u, is));
        }
        Ok((out, false))
    }

    /// Applies queued commands of executing exclusive bodies whose application markers are next in the trace (a flush of the
    /// world's command queue happened here).
    fn drain_wq(&mut self) -> Res<()>
    {
        loop
        {
            if self.wq.is_empty() { return Ok(()); }
            let Some(Ev::Apply(x)) = self.peek()? else { return Ok(()) };
            let x = *x;
            // the commands of one body are applied in the order queued; how the queues of nested exclusive bodies interleave
            // when one flush runs inside another is Bevy's business
            let Some(i) = self.wq.iter().position(|(u, _, _)| *u == x) else { return Ok(()) };
            let sender = self.wq[i].2;
            if self.wq.iter().take(i).any(|(_, _, s)| *s == sender) { return Ok(()); }
            let (u, is, sender) = self.wq.remove(i).unwrap();
            self.advance()?;
            self.stats.applies += 1;
            self.stats.excl_flushed_in_body += 1;
            let (saved_sender, saved_iss) = (self.sender, self.cur_iss);
            self.sender = sender;
            self.cur_iss = self.iss_of.get(&u).copied().unwrap_or(0);
            self.apply(u, is)?;
            self.sender = saved_sender;
            self.cur_iss = saved_iss;
            self.expect_tolerant(|e| matches!(e, Ev::ApplyEnd(x) if *x == u), &format!("end of op {u:#x}"))?;
        }
    }

    fn issue(&mut self, op: &Op, u: u32, excl: bool) -> Res<Issued>
    {
        self.iss_counter += 1;
        self.iss_of.insert(u, self.iss_counter);
        let slot = |me: &Self, s: Slot| me.slots[s as usize];
        let known = |me: &Self, i: Inst| me.insts[i as usize].known.then_some(i);
        Ok(match op
        {
            Op::Run(i) => Issued::Run(known(self, *i)),
            Op::SysEvent(i, p) => { let k = known(self, *i); if k.is_some() { self.payload_issue(u); } Issued::SysEvent(k, *p) }
            Op::Broadcast(p) => { self.payload_issue(u); Issued::Broadcast(*p) }
            Op::EntityEvent(s, p) => { self.payload_issue(u); Issued::EntityEvent(slot(self, *s), *p) }
            Op::BroadcastSig(p, k) => { self.payload_issue(u); self.payload_take_signal(u, *k); Issued::Broadcast(*p) }
            Op::EntityEventSig(s, p, k) => { self.payload_issue(u); self.payload_take_signal(u, *k); Issued::EntityEvent(slot(self, *s), *p) }
            Op::SysEventSig(i, p, k) => { let kn = known(self, *i); if kn.is_some() { self.payload_issue(u); self.payload_take_signal(u, *k); } Issued::SysEvent(kn, *p) }
            Op::TriggerRes(r) => Issued::TriggerRes(*r),
            Op::Insert(s, c, v) => { let e = slot(self, *s); Issued::Insert(e, *c, *v, self.ents[e].alive) }
            Op::Remove(s, c) => { let e = slot(self, *s); Issued::Remove(e, *c, self.ents[e].alive) }
            Op::Despawn(s) => { let e = slot(self, *s); Issued::Despawn(e, self.ents[e].alive) }
            Op::DespawnRec(s) => { let e = slot(self, *s); Issued::DespawnRec(e, self.ents[e].alive) }
            Op::Mutate(s, c, v) =>
            {
                if excl { return Ok(Issued::Nop); }
                let e = slot(self, *s);
                if self.ents[e].alive && self.ents[e].comp[c.idx()].is_some() { self.ents[e].comp[c.idx()] = Some(*v); Issued::MutTrigger(e, *c) } else { Issued::Nop }
            }
            Op::SetIfNeq(s, c, v) =>
            {
                if excl { return Ok(Issued::Nop); }
                let e = slot(self, *s);
                let cur = if self.ents[e].alive { self.ents[e].comp[c.idx()] } else { None };
                match cur
                {
                    Some(old) if !crate::harness::veq(old, *v) => { self.stats.setifneq_diff += 1; self.ents[e].comp[c.idx()] = Some(*v); self.set_ret(u, Some(old), "set_if_neq")?; Issued::MutTrigger(e, *c) }
                    Some(_) => { self.stats.setifneq_equal += 1; self.set_ret(u, None, "set_if_neq")?; Issued::Nop }
                    None => { self.set_ret(u, None, "set_if_neq")?; Issued::Nop }
                }
            }
            Op::Noreact(s, c, v) =>
            {
                if excl { return Ok(Issued::Nop); }
                let e = slot(self, *s);
                if self.ents[e].alive && self.ents[e].comp[c.idx()].is_some() { self.ents[e].comp[c.idx()] = Some(*v); }
                Issued::Nop
            }
            Op::Read(s, c) =>
            {
                if excl { return Ok(Issued::Nop); }
                let e = slot(self, *s);
                let cur = if self.ents[e].alive { self.ents[e].comp[c.idx()] } else { None };
                self.set_ret(u, cur, "read")?;
                Issued::Nop
            }
            Op::ResMut(r, _) | Op::ResNoreact(r, _) if *r == R::T => Issued::Nop,
            Op::ResSetIfNeq(r, _) if *r == R::T => { self.set_ret(u, None, "resource set_if_neq")?; Issued::Nop }
            Op::ResMut(r, v) => { if excl { return Ok(Issued::Nop); } self.res[r.idx()] = *v; Issued::ResTrigger(*r) }
            Op::ResSetIfNeq(r, v) =>
            {
                if excl { return Ok(Issued::Nop); }
                let old = self.res[r.idx()];
                if !crate::harness::veq(old, *v) { self.stats.setifneq_diff += 1; self.res[r.idx()] = *v; self.set_ret(u, Some(old), "resource set_if_neq")?; Issued::ResTrigger(*r) }
                else { self.stats.setifneq_equal += 1; self.set_ret(u, None, "resource set_if_neq")?; Issued::Nop }
            }
            Op::ResNoreact(r, v) => { if excl { return Ok(Issued::Nop); } self.res[r.idx()] = *v; Issued::Nop }
            Op::Register { inst, mode, trigs } =>
            {
                if !self.insts[*inst as usize].known { return Ok(Issued::Nop); }
                let t: Vec<MTrig> = trigs.iter().take(crate::harness::MAX_BUNDLE).map(|t| self.resolve(t)).collect();
                if *mode == Mode::Revokable { self.tokens[*inst as usize] = Some(Token { inst: *inst, trigs: t.clone() }); }
                Issued::Register(*inst, *mode, t)
            }
            Op::On { inst, mode, trigs } =>
            {
                let i = *inst as usize;
                if self.insts[i].created { return Ok(Issued::Nop); }
                self.insts[i].created = true;
                self.insts[i].alive = true;
                let t: Vec<MTrig> = trigs.iter().take(crate::harness::MAX_BUNDLE).map(|t| self.resolve(t)).collect();
                if *mode == Mode::Revokable { self.tokens[i] = Some(Token { inst: *inst, trigs: t.clone() }); }
                Issued::OnRegister(*inst, *mode, t, *mode != Mode::Cleanup)
            }
            Op::Once { inst, trigs } =>
            {
                let i = *inst as usize;
                if self.insts[i].created { return Ok(Issued::Nop); }
                self.insts[i].created = true;
                self.insts[i].alive = true;
                self.insts[i].known = true;
                self.inst_entity_event(*inst)?;
                let t: Vec<MTrig> = trigs.iter().take(crate::harness::MAX_BUNDLE).map(|t| self.resolve(t)).collect();
                self.tokens[i] = Some(Token { inst: *inst, trigs: t.clone() });
                Issued::Register(*inst, Mode::Revokable, t)
            }
            Op::Revoke(i) => Issued::Revoke(self.tokens[*i as usize].clone()),
            Op::KillInst(i) => Issued::Kill(known(self, *i)),
            Op::Probe => Issued::Probe,
            Op::ReturnErr => Issued::Nop,
            Op::Direct(w) => Issued::Direct(w.clone()),
            Op::Now(_) => Issued::Nop,
            Op::WrAdd(k, trigs) => Issued::WrAdd(*k, trigs.iter().take(crate::harness::MAX_BUNDLE).map(|t| self.resolve(t)).collect()),
            Op::WrRemove(k, trigs) => Issued::WrRemove(*k, trigs.iter().take(crate::harness::MAX_BUNDLE).map(|t| self.resolve(t)).collect()),
            Op::WrRun(k) => Issued::WrRun(*k),
            Op::EwrAdd(k, s, data) | Op::EwrAddEc(k, s, data) => Issued::EwrAdd(*k, slot(self, *s), *data),
            Op::EwrRemove(k, s, mask) =>
            {
                let all = crate::harness::ewr_trigs(*k, *s);
                let sel = all.iter().enumerate().filter(|(i, _)| mask & (1 << i) != 0).map(|(_, t)| self.resolve(t)).collect();
                Issued::EwrRemove(*k, slot(self, *s), *mask, sel)
            }
            Op::EwrRemoveMany(k, parts) =>
            {
                let mut sel = Vec::new();
                let mut ents = Vec::new();
                for (sl, mask) in parts
                {
                    let all = crate::harness::ewr_trigs(*k, *sl);
                    for (i, t) in all.iter().enumerate() { if mask & (1 << i) != 0 && sel.len() < crate::harness::MAX_BUNDLE { sel.push(self.resolve(t)); } }
                    ents.push((slot(self, *sl), *mask));
                }
                Issued::EwrRemoveMany(*k, ents, sel)
            }
            Op::CmdSyscall(kind, key, input) =>
            {
                // `Commands::spawned_syscall` needs the id, which the harness only has once the system was spawned
                if matches!(kind, SysKind::Spawned) && self.sys.spawned[*key as usize % 4].is_none() { return Ok(Issued::Nop); }
                Issued::CmdSyscall(*kind, *key, *input)
            }
        })
    }

    /// Consumes events until `pred` matches the next one, allowing polled reactions in between.
    fn expect_tolerant(&mut self, pred: impl Fn(&Ev) -> bool, what: &str) -> Res<()>
    {
        loop
        {
            match self.peek()?
            {
                Some(ev) if pred(ev) => { self.advance()?; return Ok(()); }
                _ => {}
            }
            if self.at_enter()? { self.invocation(None, None)?; continue; }
            if !self.wq.is_empty() { let n = self.wq.len(); self.drain_wq()?; if self.wq.len() < n { continue; } }
            return self.unexpected(what);
        }
    }

    fn apply_issued(&mut self, issued: Vec<(u32, Issued)>) -> Res<()> { self.apply_issued_ctx(issued, false) }

    /// `syscall`: the ops were queued by a callee of the syscall family, whose commands must all be applied before the call
    /// returns (C17): a missing application is reported under that property.
    fn apply_issued_ctx(&mut self, issued: Vec<(u32, Issued)>, syscall: bool) -> Res<()>
    {
        for (u, is) in issued
        {
            if syscall
            {
                loop
                {
                    if matches!(self.peek()?, Some(Ev::Apply(x)) if *x == u) { break; }
                    if self.at_enter()? { self.invocation(None, None)?; continue; }
                    let ev = self.peek()?.cloned();
                    fail!(self, "C17", "syscall-effects-late", &["C09", "C02"], "a command queued by a system called through the syscall family (op {u:#x}) was not applied before the call returned; observed {ev:?}");
                }
            }
            self.expect_tolerant(|e| matches!(e, Ev::Apply(x) if *x == u), &format!("application of op {u:#x}"))?;
            self.stats.applies += 1;
            let saved_iss = self.cur_iss;
            self.cur_iss = self.iss_of.get(&u).copied().unwrap_or(0);
            self.apply(u, is)?;
            self.cur_iss = saved_iss;
            self.expect_tolerant(|e| matches!(e, Ev::ApplyEnd(x) if *x == u), &format!("end of op {u:#x}"))?;
            // a top-level command has completed together with every tree it started
            if self.tree_depth == 0 { self.payload_deadline("the end of the top-level command that sent it", false)?; }
        }
        Ok(())
    }

    fn wr_inst(&self, k: u8) -> Option<Inst>
    {
        self.prog.insts.iter().position(|d| d.origin == Origin::World(k)).map(|i| i as Inst)
    }
    fn ewr_inst(&self, k: u8) -> Option<Inst>
    {
        self.prog.insts.iter().position(|d| d.origin == Origin::EntityWorld(k)).map(|i| i as Inst)
    }

    fn targets_now(&self, ent: Option<(EntId, EKind)>, key: Key) -> Vec<Inst>
    {
        let mut v: Vec<Inst> = Vec::new();
        if let Some((e, kind)) = ent { if self.ents[e].alive { v.extend(self.ents[e].ereg.iter().filter(|r| r.kind == kind).map(|r| r.inst)); } }
        v.extend(self.tables.get(&key).map(|t| t.iter().map(|(i, _)| *i).collect::<Vec<_>>()).unwrap_or_default());
        v
    }

    /// A direct trigger call made while commands were still pending on the world's queue: whether the framework works out who
    /// reacts before or after it applies them is its own business. Who reacts either way must; who reacts only one way may.
    fn adjust_pending(&mut self, list: &mut Vec<Delivery>, cause: &Cause)
    {
        let Some(mut pre) = self.pre_targets.take() else { return };
        for d in list.iter_mut()
        {
            match pre.iter().position(|i| *i == d.target) { Some(pos) => { pre.remove(pos); } None => { d.optional = true; self.stats.trigger_raced_pending += 1; } }
        }
        for i in pre { let d = self.mk(i, cause.clone(), true, None); list.push(d); self.stats.trigger_raced_pending += 1; }
    }

    fn tw_deliveries(&mut self, key: Key, cause: Cause, optional: bool) -> Vec<Delivery>
    {
        let v: Vec<Inst> = self.tables.get(&key).map(|v| v.iter().map(|(i, _)| *i).collect()).unwrap_or_default();
        v.into_iter().map(|i| self.mk(i, cause.clone(), optional, None)).collect()
    }
    fn ent_deliveries(&mut self, e: EntId, kind: EKind, cause: Cause) -> Vec<Delivery>
    {
        if !self.ents[e].alive { return Vec::new(); }
        let v: Vec<Inst> = self.ents[e].ereg.iter().filter(|r| r.kind == kind).map(|r| r.inst).collect();
        // a reactor registered more than once for the same entity trigger: one run per registration is what happens, but
        // "duplicate triggers will be ignored" would be a legitimate reading too, so the extra runs are optional
        let mut seen: Vec<Inst> = Vec::new();
        v.into_iter().map(|i| { let dup = seen.contains(&i); seen.push(i); self.mk(i, cause.clone(), dup, None) }).collect()
    }

    fn do_insert(&mut self, e: EntId, c: C, v: u8, existed_at_issue: bool) -> Res<()>
    {
        if !existed_at_issue { return Ok(()); }
        if !self.ents[e].alive { self.stats.inserts_dead_at_apply += 1; return Ok(()); }
        self.ents[e].comp[c.idx()] = Some(v);
        let mut list = self.ent_deliveries(e, EKind::Ins(c), Cause::Ins(c, e));
        list.extend(self.tw_deliveries(Key::Ins(c), Cause::Ins(c, e), false));
        self.process_deliveries(list)
    }

    fn do_mutation_trigger(&mut self, e: EntId, c: C) -> Res<()>
    {
        let alive = self.ents[e].alive;
        if !alive { self.stats.a1_ambiguous += 1; }
        let mut list = self.ent_deliveries(e, EKind::Mut(c), Cause::Mut(c, e));
        // (a trigger on an entity that is already gone still reaches the type-wide reactors: one trigger per call, C14/C01)
        list.extend(self.tw_deliveries(Key::Mut(c), Cause::Mut(c, e), false));
        self.adjust_pending(&mut list, &Cause::Mut(c, e));
        self.process_deliveries(list)
    }

    fn do_remove(&mut self, e: EntId, c: C) -> Res<()>
    {
        if self.ents[e].alive && self.ents[e].comp[c.idx()].is_some()
        {
            self.ents[e].comp[c.idx()] = None;
            self.ents[e].removed_since_poll[c.idx()] += 1;
            if self.ents[e].removed_since_poll[c.idx()] >= 2 { self.stats.removal_reinsert_removal += 1; }
            let must: Vec<(Inst, Option<RegId>)> = self.removal_listeners_now(e, c).into_iter().map(|i| (i, None)).collect();
            self.raise(PKind::Removal(c), e, must, Vec::new());
        }
        Ok(())
    }

    fn do_broadcast(&mut self, p: P, id: u32) -> Res<()>
    {
        let mut list = self.tw_deliveries(Key::Broadcast(p), Cause::Broadcast(p, id), false);
        self.adjust_pending(&mut list, &Cause::Broadcast(p, id));
        self.payload_apply(id, &list)?;
        if self.payload_raced_and_gone(id, &list)? { return Ok(()); }
        self.process_deliveries(list)
    }

    fn do_entity_event(&mut self, e: EntId, p: P, id: u32) -> Res<()>
    {
        let alive = self.ents[e].alive;
        if !alive { self.stats.a1_ambiguous += 1; }
        let mut list = self.ent_deliveries(e, EKind::Ev(p), Cause::EntityEvent(p, id, e));
        list.extend(self.tw_deliveries(Key::AnyEE(p), Cause::EntityEvent(p, id, e), false));
        self.adjust_pending(&mut list, &Cause::EntityEvent(p, id, e));
        self.payload_apply(id, &list)?;
        if self.payload_raced_and_gone(id, &list)? { return Ok(()); }
        self.process_deliveries(list)
    }

    fn do_sys_event(&mut self, t: Inst, p: P, id: u32) -> Res<()>
    {
        let d = self.mk(t, Cause::SysEvent(p, id), false, None);
        self.payload_apply(id, std::slice::from_ref(&d))?;
        self.deliver(d)
    }

    fn do_run(&mut self, t: Inst) -> Res<()>
    {
        let d = self.mk(t, Cause::Manual, false, None);
        self.deliver(d)
    }

    fn do_trigger_res(&mut self, r: R) -> Res<()>
    {
        if r == R::T && !self.res_t_present { self.stats.res_trigger_while_absent += 1; }
        let mut list = self.tw_deliveries(Key::Res(r), Cause::Resource(r), false);
        self.adjust_pending(&mut list, &Cause::Resource(r));
        self.process_deliveries(list)
    }

    fn apply(&mut self, u: u32, is: Issued) -> Res<()>
    {
        match is
        {
            Issued::Nop => {}
            Issued::Run(Some(t)) => self.do_run(t)?,
            Issued::Run(None) => {}
            Issued::SysEvent(Some(t), p) => self.do_sys_event(t, p, u)?,
            Issued::SysEvent(None, _) => {}
            Issued::Broadcast(p) => self.do_broadcast(p, u)?,
            Issued::EntityEvent(e, p) => self.do_entity_event(e, p, u)?,
            Issued::TriggerRes(r) | Issued::ResTrigger(r) => self.do_trigger_res(r)?,
            Issued::Insert(e, c, v, ex) => self.do_insert(e, c, v, ex)?,
            Issued::Remove(e, c, ex) => { if ex { self.do_remove(e, c)?; } }
            Issued::Despawn(e, ex) => { if ex { self.despawn_ent(e); } }
            Issued::DespawnRec(e, ex) => { if ex { self.despawn_rec(e); } }
            Issued::MutTrigger(e, c) => self.do_mutation_trigger(e, c)?,
            Issued::Register(i, mode, trigs) => self.register(i, mode, &trigs),
            Issued::OnRegister(i, mode, trigs, publish) =>
            {
                self.register(i, mode, &trigs);
                if publish { self.inst_entity_event(i)?; self.insts[i as usize].known = true; }
            }
            Issued::Revoke(Some(tok)) => self.revoke(tok.inst, &tok.trigs),
            Issued::Revoke(None) => {}
            Issued::Kill(Some(i)) => self.kill_inst(i),
            Issued::Kill(None) => {}
            Issued::Probe =>
            {
                match self.peek()?
                {
                    Some(Ev::Probe { uid, s }) if *uid == u =>
                    {
                        if !s.is_empty() { let s = s.clone(); fail!(self, "C04", "probe-saw-data", &[], "probe {u:#x} queued by a system observed event data {s:?}"); }
                        self.advance()?;
                    }
                    _ => self.unexpected("probe observation")?,
                }
            }
            Issued::Direct(w) => self.exec_wop(&w, u)?,
            Issued::WrAdd(k, trigs) =>
            {
                let keep: Vec<MTrig> = trigs.iter().copied().filter(|t| if self.wr_keys[k as usize].contains(t) { matches!(t, MTrig::Ent(..)) } else { self.wr_keys[k as usize].push(*t); true }).collect();
                self.expect_kept(u, keep.len() as u8)?;
                if let (Some(i), false) = (self.wr_inst(k), keep.is_empty()) { self.register(i, Mode::Persistent, &keep); }
            }
            Issued::WrRemove(k, trigs) =>
            {
                self.wr_keys[k as usize].retain(|t| !trigs.contains(t));
                if let Some(i) = self.wr_inst(k) { self.revoke(i, &trigs); }
            }
            Issued::WrRun(k) => { if let Some(i) = self.wr_inst(k) { self.do_run(i)?; } }
            Issued::EwrAdd(k, e, data) =>
            {
                let ok = self.ents[e].alive;
                if ok && self.ents[e].ewr_mask[k as usize] != 0 { self.stats.ewr_readd += 1; }
                self.expect_kept(u, ok as u8)?;
                if ok
                {
                    self.ents[e].ewr_mask[k as usize] = if k == 0 { 0b11 } else { 0b111 };
                    self.ents[e].ewr[k as usize] = Some(data);
                    let trigs: Vec<MTrig> = match k
                    {
                        0 => vec![MTrig::Ent(e, EKind::Mut(C::A)), MTrig::Ent(e, EKind::Ev(P::X))],
                        _ => vec![MTrig::Ent(e, EKind::Ins(C::B)), MTrig::Ent(e, EKind::Rem(C::B)), MTrig::Ent(e, EKind::Ev(P::Y))],
                    };
                    if let Some(i) = self.ewr_inst(k) { self.register(i, Mode::Persistent, &trigs); }
                }
            }
            Issued::EwrRemove(k, e, mask, trigs) =>
            {
                self.ents[e].ewr_mask[k as usize] &= !mask;
                if let Some(i) = self.ewr_inst(k)
                {
                    self.revoke(i, &trigs);
                    if self.ents[e].alive && !self.ents[e].ereg.iter().any(|r| r.inst == i) { self.ents[e].ewr[k as usize] = None; }
                }
            }
            Issued::EwrRemoveMany(k, ents, trigs) =>
            {
                for (e, mask) in &ents { self.ents[*e].ewr_mask[k as usize] &= !mask; }
                if let Some(i) = self.ewr_inst(k)
                {
                    self.revoke(i, &trigs);
                    // data is removed from every named entity that no longer has a trigger of this reactor
                    let named: Vec<EntId> = trigs.iter().filter_map(|t| match t { MTrig::Ent(e, _) => Some(*e), _ => None }).collect();
                    for e in named { if self.ents[e].alive && !self.ents[e].ereg.iter().any(|r| r.inst == i) { self.ents[e].ewr[k as usize] = None; } }
                }
            }
            Issued::CmdSyscall(kind, key, input) => self.sys_call(kind, key, input, true, u)?,
        }
        Ok(())
    }

    fn expect_kept(&mut self, u: u32, n: u8) -> Res<()>
    {
        match self.peek()?
        {
            Some(Ev::Kept { uid, n: n2 }) if *uid == u =>
            {
                if *n2 != n { return Err(Stop::Bail(Bail(format!("harness and spec disagree on world-reactor bookkeeping at {u:#x}: {n2} vs {n}")))); }
                self.advance()?;
                Ok(())
            }
            _ => self.unexpected("world reactor wrapper"),
        }
    }

    /// Direct world operations (driver steps, `Now` ops of exclusive bodies, `Direct` commands).
    fn exec_wop(&mut self, w: &WOp, u: u32) -> Res<()>
    {
        // (nearly every world operation flushes the world's command queue before it acts)
        let slot = |me: &Self, s: Slot| me.slots[s as usize];
        let mut pre = None;
        // (the caller names the entity before the call: a slot that a pending command re-spawns still means the old entity)
        let mut pre_ent = None;
        let mut pre_t = None;
        if !self.wq.is_empty()
        {
            if self.prog.excl_noflush
            {
                pre_ent = match w { WOp::EntityEvent(s, _) | WOp::TriggerMutation(s, _) => Some(slot(self, *s)), _ => None };
                // (likewise the caller looks whether the removable resource exists before the call)
                if matches!(w, WOp::TriggerRes(R::T)) { pre_t = Some(self.res_t_present); }
                pre = match w
                {
                    WOp::Broadcast(p) => Some(self.targets_now(None, Key::Broadcast(*p))),
                    WOp::EntityEvent(s, p) => Some(self.targets_now(Some((slot(self, *s), EKind::Ev(*p))), Key::AnyEE(*p))),
                    WOp::TriggerMutation(s, c) => Some(self.targets_now(Some((slot(self, *s), EKind::Mut(*c))), Key::Mut(*c))),
                    WOp::TriggerRes(r) => Some(self.targets_now(None, Key::Res(*r))),
                    _ => None,
                };
            }
            // (a payload nobody listens to *before* the pending commands are applied may be dropped right away)
            if let (Some(l0), WOp::Broadcast(_) | WOp::EntityEvent(..)) = (&pre, w)
            {
                self.payload_issue(u);
                let p = self.payloads.get_mut(&u).unwrap();
                p.raced = true;
                p.applied = true;
                p.unresolved = l0.iter().map(|i| (*i, false)).collect();
            }
            let before = self.wq.len();
            self.in_op_prologue = true; let r = self.drain_wq(); self.in_op_prologue = false; r?;
            if self.wq.len() == before
            {
                pre = None;
                if let Some(p) = self.payloads.get_mut(&u) { if p.raced && !p.dropped { p.raced = false; p.applied = false; p.unresolved.clear(); } }
            }
        }
        self.pre_targets = pre;
        self.pre_ent = pre_ent;
        self.pre_t_present = pre_t;
        let r = self.exec_wop_inner(w, u);
        self.pre_targets = None;
        self.pre_ent = None;
        self.pre_t_present = None;
        r
    }

    fn exec_wop_inner(&mut self, w: &WOp, u: u32) -> Res<()>
    {
        let slot = |me: &Self, s: Slot| me.slots[s as usize];
        match w
        {
            WOp::Spawn(s, a, b) =>
            {
                let cur = slot(self, *s);
                if self.ents[cur].alive { return Ok(()); }
                let Some(Ev::Spawned { slot: s2, e }) = self.peek()?.cloned() else { return self.unexpected("spawn announcement"); };
                if s2 != *s { return self.unexpected("spawn announcement for the slot"); }
                self.advance()?;
                self.stats.slot_respawn += 1;
                let id = self.new_ent(e);
                self.slots[*s as usize] = id;
                if let Some(v) = a { self.do_insert(id, C::A, *v, true)?; }
                if let Some(v) = b { self.do_insert(id, C::B, *v, true)?; }
            }
            WOp::Despawn(s) => { let e = slot(self, *s); self.despawn_ent(e); }
            WOp::DespawnRec(s) => { let e = slot(self, *s); self.despawn_rec(e); }
            WOp::Remove(s, c) => { let e = slot(self, *s); self.do_remove(e, *c)?; }
            WOp::TriggerMutation(s, c) => { let e = self.pre_ent.take().unwrap_or(slot(self, *s)); self.do_mutation_trigger(e, *c)?; }
            WOp::Insert(s, c, v) => { let e = slot(self, *s); let ex = self.ents[e].alive; self.do_insert(e, *c, *v, ex)?; }
            WOp::Gc =>
            {
                self.guaranteed_gc();
                if self.bulk_released > 0 || self.bulk_held > 0
                {
                    let Some(Ev::Bulk { uid, released, survivors, held, lost }) = self.peek()?.cloned() else { return self.unexpected("bulk auto-despawn observation"); };
                    if uid != u || released != self.bulk_released || held != self.bulk_held { return bail("harness and spec disagree on the bulk auto-despawn bookkeeping"); }
                    self.advance()?;
                    if survivors > 0 { fail!(self, "C10", "autodespawn-leak", &[], "{survivors} of {released} entities whose signals had all been dropped survived the garbage collection that followed"); }
                    if lost > 0 { fail!(self, "C10", "premature-autodespawn", &[], "{lost} of {held} entities were despawned by a garbage collection while a clone of their signal was still held"); }
                    self.stats.bulk_collected += released as u64;
                    // the held clones are dropped right after this collection
                    self.bulk_alive = held as i64;
                    self.bulk_released = held;
                    self.bulk_held = 0;
                }
            }
            WOp::RcScratch(variant, hold) =>
            {
                if !self.in_direct_step || self.tree_depth > 0 { return bail("scratch ref-counted system inside a batch or tree (not generated)"); }
                if self.bulk_released > 0 || self.bulk_held > 0 || !self.sys.doomed.is_empty() { return bail("scratch ref-counted system while other signals await their collection (not generated)"); }
                self.guaranteed_gc();
                let Some(Ev::RcScratch { uid, mid, after }) = self.peek()?.cloned() else { return self.unexpected("scratch ref-counted system observation"); };
                if uid != u { return self.unexpected("scratch ref-counted system observation"); }
                self.advance()?;
                self.stats.rc_scratch += 1;
                let route = ["spawn_rc_system_command", "spawn_rc_system_command_from", "spawn_rc_system", "spawn_rc_system_from"][*variant as usize % 4];
                if mid && !*hold { fail!(self, "C10", "autodespawn-leak", &["C07"], "a system spawned with {route} survived the garbage collection that followed the drop of every clone of its signal"); }
                if !mid && *hold { fail!(self, "C10", "premature-autodespawn", &["C07"], "a system spawned with {route} was despawned by a garbage collection (or never existed) while a clone of its signal was still held"); }
                if after { fail!(self, "C10", "autodespawn-leak", &["C07"], "a system spawned with {route} exists after its last signal clone was dropped and a garbage collection ran"); }
            }
            WOp::ReactorBulk(n, mode) =>
            {
                if !self.in_direct_step || self.tree_depth > 0 { return bail("bulk reactor release inside a batch or tree (not generated)"); }
                if self.bulk_released > 0 || self.bulk_held > 0 || !self.sys.doomed.is_empty() { return bail("bulk reactor release while other signals await their collection (not generated)"); }
                self.guaranteed_gc();
                // (an open entry nobody has to or may react to is harmless: the op's hidden polls run nothing for it)
                if *mode >= 2 && (self.polled.iter().any(|p| !p.closed && !(p.must.is_empty() && p.extra.is_empty())) || !self.wq.is_empty()) { return bail("strip variant of the bulk reactor release while removals / despawns await their poll (not generated)"); }
                let Some(Ev::ReactorBulk { uid, n: n2, leaked, runs }) = self.peek()?.cloned() else { return self.unexpected("bulk reactor release observation"); };
                if uid != u || n2 != *n as u32 { return self.unexpected("bulk reactor release observation"); }
                self.advance()?;
                self.stats.reactor_bulk += 1;
                if *n as u64 > self.stats.max_reactor_bulk { self.stats.max_reactor_bulk = *n as u64; }
                if *mode >= 2
                {
                    // the watched entity was stripped of its components while alive, polled, despawned, polled, collected. Whether
                    // the reactors run at the strip (the pinned tree) or at the despawn is left open; they must not run twice,
                    // and once the watched entity is gone nothing may keep them alive.
                    self.stats.reactor_strip += 1;
                    let once = mode % 2 == 1;
                    if runs > *n as u32 && once { fail!(self, "C08", "polled-spurious", &["C15"], "{n} one-off reactors watching the despawn of one entity ran {runs} times in total (the entity lost its components while alive, then was despawned): a despawn reactor fires at most once per watched entity"); }
                    if runs > *n as u32 { fail!(self, "C08", "polled-spurious", &["C07"], "{n} reactors watching the despawn of one entity ran {runs} times in total (the entity lost its components while alive, then was despawned): a despawn reactor fires at most once per watched entity"); }
                    if leaked > 0
                    {
                        if once { fail!(self, "C15", "once-entity-leaked", &["C07", "C08"], "{leaked} of {n} one-off reactors watching the despawn of an entity (or entities they own) still exist after that entity lost its components while alive, was despawned, polled and a garbage collection ran; they ran {runs} times"); }
                        fail!(self, "C07", "reactor-leaked", &["C08", "C15"], "{leaked} of {n} ref-counted reactors watching the despawn of an entity still exist after that entity lost its components while alive, was despawned, polled and a garbage collection ran; they ran {runs} times");
                    }
                    return Ok(());
                }
                let how = if mode % 2 == 0 { "the entity they watched was despawned" } else { "they were revoked in one batch" };
                if leaked > 0 { fail!(self, "C07", "reactor-leaked", &["C10", "C15"], "{leaked} of {n} ref-counted reactors still exist after {how} and a garbage collection ran"); }
            }
            WOp::SigBulk(n, m) =>
            {
                if !self.in_direct_step { return bail("bulk signal op inside a batch or tree (not generated)"); }
                let kept = if *m > 0 { (0..*n).filter(|i| i % (*m as u16) == 0).count() as u32 } else { 0 };
                self.bulk_held += kept;
                self.bulk_released += *n as u32 - kept;
                self.bulk_alive += *n as i64;
                self.stats.sig_zero += 1;
                if *n as u64 > self.stats.max_bulk { self.stats.max_bulk = *n as u64; }
            }
            WOp::Poll =>
            {
                self.poll_epoch += 1;
                self.sure_epoch += 1;
                self.stats.guaranteed_poll += 1;
                // inside a tree the reactions may be postponed (invisibly) until busy ancestors finish: the deadline is the tree's end
                // (a poll inside a tree guarantees nothing new: reactions may already be queued behind the current one, or get postponed)
                if self.tree_depth > 0 { self.poll_point()?; }
                else { self.poll_point()?; self.flush_polled(false)?; }
            }
            WOp::Flush => {}
            WOp::KillInst(i) => { if self.insts[*i as usize].known { self.kill_inst(*i); } }
            WOp::DropInstSig(i) =>
            {
                // the only clone of a ref-counted system command's signal: the system goes with the next collection
                let ti = *i as usize;
                if self.prog.insts[ti].rc && !self.insts[ti].sig_released
                {
                    self.insts[ti].sig_released = true;
                    self.stats.rc_inst_released += 1;
                    if self.insts[ti].alive && !self.insts[ti].doomed { self.insts[ti].doomed = true; self.stats.doomed_insts += 1; }
                }
            }
            WOp::SysEvent(i, p) => { if self.insts[*i as usize].known { self.payload_issue(u); self.do_sys_event(*i, *p, u)?; } }
            WOp::Broadcast(p) => { self.payload_issue(u); self.do_broadcast(*p, u)?; }
            WOp::EntityEvent(s, p) => { let e = self.pre_ent.take().unwrap_or(slot(self, *s)); self.payload_issue(u); self.do_entity_event(e, *p, u)?; }
            WOp::TriggerRes(r) => { if *r != R::T || self.pre_t_present.take().unwrap_or(self.res_t_present) { self.do_trigger_res(*r)?; } }
            WOp::Run(i) => { if self.insts[*i as usize].known { self.do_run(*i)?; } }
            WOp::Reparent(child, parent) =>
            {
                let (c, p) = (slot(self, *child), slot(self, *parent));
                if c != p && self.ents[c].alive && self.ents[p].alive
                {
                    if let Some(old) = self.ents[c].parent { self.ents[old].children.retain(|x| *x != c); }
                    self.ents[c].parent = Some(p);
                    if !self.ents[p].children.contains(&c) { self.ents[p].children.push(c); }
                }
            }
            WOp::SigPrepare(k, s) =>
            {
                let k = *k as usize;
                if self.sigs[k].0.is_some() { return Ok(()); }
                self.sigs[k] = (Some(slot(self, *s)), 1);
                self.sig_harness[k] = 1;
            }
            WOp::SigClone(k) => { let k = *k as usize; if self.sig_harness[k] > 0 { self.sigs[k].1 += 1; self.sig_harness[k] += 1; } }
            WOp::SigDrop(k) | WOp::SigDropUnwind(k) =>
            {
                let k = *k as usize;
                if self.sig_harness[k] > 0 { self.sig_harness[k] -= 1; self.sig_release(k); }
            }
            WOp::SigMoveInto(k, s) =>
            {
                let k = *k as usize;
                let e = slot(self, *s);
                if self.ents[e].alive && self.sig_harness[k] > 0 { self.sig_harness[k] -= 1; self.ents[e].holds.push(k); self.stats.sig_moved_into_entity += 1; }
            }
            WOp::TakeStorage(_) => return Err(Stop::Bail(Bail("storage fault is not judged by the lock-step spec".into()))),
            WOp::Syscall(kind, key, input) => self.sys_call(*kind, *key, *input, false, u)?,
            WOp::SpawnSys(k, key) => { let k = *k as usize % 4; if self.sys.spawned[k].is_none() { self.sys.spawned[k] = Some((*key % crate::sysfam::NKEYS, true)); } }
            WOp::KillSys(k) =>
            {
                let k = *k as usize % 4;
                if let Some(s) = self.sys.spawned[k].as_mut() { s.1 = false; }
                // (a system inserted into a slot entity: killing it despawns that entity)
                if let Some(e) = self.sys.on_ent[k] { if self.ents[e].alive { self.despawn_ent(e); } }
            }
            WOp::ClearSys(k) => { let k = *k as usize % 4; if self.sys.on_ent[k].is_none() { if let Some(s) = self.sys.spawned[k].as_mut() { s.1 = false; self.stats.sys_cleared += 1; } } }
            WOp::RevokeNamed(n, key) =>
            {
                let state = crate::sysfam::state_id(SysKind::Named(*n), *key % crate::sysfam::NKEYS, false);
                if self.sys.running.contains(&state) { return bail("a named system was revoked while it runs (not judged)"); }
                self.sys.named.remove(&state);
                self.sys.counts.remove(&state);
            }
            WOp::SpawnSysRc(k, key) =>
            {
                let k = *k as usize % 4;
                if self.sys.spawned[k].is_none() { self.sys.spawned[k] = Some((*key % crate::sysfam::NKEYS, true)); self.sys.rc_held[k] = true; }
            }
            WOp::DropSysRc(k) =>
            {
                let k = *k as usize % 4;
                if self.sys.rc_held[k]
                {
                    self.sys.rc_held[k] = false;
                    if !self.in_direct_step { return bail("signal of a ref-counted spawned system dropped inside a batch or tree (placement of in-tree collections is unspecified)"); }
                    self.sys.doomed.push(k);
                }
            }
            WOp::InsertSys(k, s, key) =>
            {
                let k = *k as usize % 4;
                let e = slot(self, *s);
                if self.sys.spawned[k].is_none() && self.ents[e].alive && !self.sys.on_ent.iter().any(|x| *x == Some(e)) { self.sys.spawned[k] = Some((*key % crate::sysfam::NKEYS, true)); self.sys.on_ent[k] = Some(e); }
                else if matches!(self.sys.spawned[k], Some((_, true))) && self.sys.on_ent[k] == Some(e) && self.ents[e].alive
                {
                    // inserting again into the entity that hosts this very slot's system: a new registration with a state of its own
                    let state = crate::sysfam::ST_SPAWNED + k as u8;
                    if self.sys.running.contains(&state) { return bail("a spawned system was inserted again while it runs (not judged)"); }
                    self.sys.spawned[k] = Some((*key % crate::sysfam::NKEYS, true));
                    self.sys.counts.remove(&state);
                    self.stats.sys_reinserted += 1;
                }
            }
            WOp::Acc(kind, s, c, v) => self.acc(*kind, slot(self, *s), *c, *v, u)?,
            WOp::ResAcc(kind, r, v) =>
            {
                self.stats.acc_ops += 1;
                // none of the world-level / read-only resource accessors triggers (C14); the value is checked after the step
                let present = *r != R::T || self.res_t_present;
                if *r != R::T && matches!(kind, ResAccKind::WorldRemove | ResAccKind::CmdRemove) { return bail("only resource T is ever removed (not generated)"); }
                match kind
                {
                    ResAccKind::WorldNoreact | ResAccKind::WorldGetNoreact => { if present { self.res[r.idx()] = *v; } }
                    ResAccKind::WorldInsert | ResAccKind::CmdInsert => { self.res[r.idx()] = *v; if *r == R::T { self.res_t_present = true; } }
                    ResAccKind::WorldRead | ResAccKind::ParamRead => { let cur = present.then_some(self.res[r.idx()]); self.set_ret(u, cur, "resource read")?; }
                    ResAccKind::GetOrInsertWith =>
                    {
                        if !present { self.res[r.idx()] = *v; self.res_t_present = true; }
                        let cur = self.res[r.idx()];
                        self.set_ret(u, Some(cur), "get_react_resource_or_insert_with")?;
                    }
                    ResAccKind::Init => { if !present { self.res[r.idx()] = 0; self.res_t_present = true; } }
                    ResAccKind::WorldRemove => { let cur = present.then_some(self.res[r.idx()]); self.set_ret(u, cur, "remove_react_resource")?; self.res_t_present = false; self.stats.res_removed += 1; }
                    ResAccKind::CmdRemove => { self.res_t_present = false; self.stats.res_removed += 1; }
                }
            }
            WOp::Move(from, to, c) =>
            {
                let (f, t) = (slot(self, *from), slot(self, *to));
                if f != t && self.ents[t].alive && self.ents[f].alive
                {
                    if let Some(v) = self.ents[f].comp[c.idx()]
                    {
                        self.stats.acc_ops += 1;
                        self.do_remove(f, *c)?;
                        self.do_insert(t, *c, v, true)?;
                    }
                }
            }
        }
        Ok(())
    }

    /// Component accessors called from one-shot systems (C14): the value effect happens inside the accessor, the trigger
    /// (if any) is a command of the one-shot system and is applied before the call returns.
    fn acc(&mut self, kind: AccKind, e: EntId, c: C, v: u8, u: u32) -> Res<()>
    {
        self.stats.acc_ops += 1;
        let single = matches!(kind, AccKind::SingleMut | AccKind::SingleNoreact | AccKind::SingleSetIfNeq | AccKind::SingleRead | AccKind::RoSingle);
        let mut e = e;
        if single
        {
            let holders: Vec<EntId> = (0..self.ents.len()).filter(|i| self.ents[*i].alive && self.ents[*i].comp[c.idx()].is_some()).collect();
            match self.peek()?
            {
                Some(Ev::Kept { uid, n }) if *uid == u =>
                {
                    if *n as usize != holders.len() { let n = *n; fail!(self, "C14", "component-value", &[], "{n} entities carry component {c:?}, expected {}", holders.len()); }
                    self.advance()?;
                }
                _ => return self.unexpected("single-accessor guard"),
            }
            if holders.len() != 1 { return Ok(()); }
            self.stats.single_acc += 1;
            e = holders[0];
        }
        let cur = if self.ents[e].alive { self.ents[e].comp[c.idx()] } else { None };
        if single
        {
            let want_old = match kind { AccKind::SingleSetIfNeq => cur.filter(|o| !crate::harness::veq(*o, v)), _ => cur };
            match self.peek()?.cloned()
            {
                Some(Ev::Single { uid, e: bits, old }) if uid == u =>
                {
                    if bits != self.real(e) { fail!(self, "C14", "accessor-return", &[], "{kind:?} reported entity {bits:#x}, the only holder of {c:?} is {:#x}", self.real(e)); }
                    if old != want_old { fail!(self, "C14", "accessor-return", &[], "{kind:?} saw / returned {old:?}, expected {want_old:?}"); }
                    self.advance()?;
                }
                _ => return self.unexpected("single-accessor observation"),
            }
        }
        match kind
        {
            AccKind::QGetMut | AccKind::SingleMut =>
            {
                if cur.is_some() { self.ents[e].comp[c.idx()] = Some(v); self.do_mutation_trigger(e, c)?; }
            }
            AccKind::QSetIfNeq | AccKind::SingleSetIfNeq =>
            {
                let changes = matches!(cur, Some(o) if !crate::harness::veq(o, v));
                if changes { self.stats.setifneq_diff += 1; } else { self.stats.setifneq_equal += 1; }
                if kind == AccKind::QSetIfNeq { self.set_ret(u, cur.filter(|o| !crate::harness::veq(*o, v)), "React::set_if_neq")?; }
                if changes { self.ents[e].comp[c.idx()] = Some(v); self.do_mutation_trigger(e, c)?; }
            }
            AccKind::QNoreact | AccKind::SingleNoreact => { if cur.is_some() { self.ents[e].comp[c.idx()] = Some(v); } }
            AccKind::QRead | AccKind::RoRead => { self.set_ret(u, cur, "read")?; }
            AccKind::SingleRead | AccKind::RoSingle => {}
        }
        Ok(())
    }

    /// A batch of ops run by a one-shot system (driver step or frame system): not a system command.
    fn batch(&mut self, issuer: u8, run: u32, ops: &'a [Op]) -> Res<()>
    {
        let saved = self.sender;
        self.sender = (issuer, run);
        let (issued, _) = self.issue_script(ops, issuer, run, false, false)?;
        self.apply_issued(issued)?;
        self.sender = saved;
        Ok(())
    }

    //---------------------------------------------------------------------------------------------------------------
    // top level

    fn run_all(&mut self) -> Res<()>
    {
        // setup announcements
        let prog0: &'a Program = self.prog;
        for (s, (a, b)) in prog0.slots.iter().enumerate()
        {
            let Some(Ev::Spawned { slot, e }) = self.peek()?.cloned() else { return self.unexpected("slot spawn"); };
            if slot as usize != s { return self.unexpected("slot spawn in order"); }
            self.advance()?;
            let id = self.new_ent(e);
            self.slots.push(id);
            self.ents[id].comp = [*a, *b];
        }
        for i in 0..self.prog.insts.len()
        {
            match self.prog.insts[i].origin
            {
                Origin::Pre =>
                {
                    self.insts[i].known = true;
                    self.insts[i].created = true;
                    self.insts[i].alive = true;
                    self.inst_entity_event(i as Inst)?;
                }
                Origin::World(k) =>
                {
                    self.insts[i].created = true;
                    self.insts[i].alive = true;
                    if k != 0 && !prog0.wr_starting.is_empty()
                    {
                        // starting triggers (`add_world_reactor_with`)
                        let t: Vec<MTrig> = prog0.wr_starting.iter().take(crate::harness::MAX_BUNDLE).map(|t| self.resolve(t)).collect();
                        for x in &t { if !self.wr_keys[1].contains(x) { self.wr_keys[1].push(*x); } }
                        self.register(i as Inst, Mode::Persistent, &t);
                    }
                }
                Origin::EntityWorld(_) => { self.insts[i].created = true; self.insts[i].alive = true; }
                Origin::App =>
                {
                    self.insts[i].created = true;
                    self.insts[i].alive = true;
                    let trigs = prog0.app_reactors.iter().find(|(x, _)| *x as usize == i).map(|(_, t)| t.clone()).unwrap_or_default();
                    let t: Vec<MTrig> = trigs.iter().take(crate::harness::MAX_BUNDLE).map(|t| self.resolve(t)).collect();
                    self.register(i as Inst, Mode::Persistent, &t);
                }
                _ => {}
            }
        }
        let mut frame = 0u32;
        let prog: &'a Program = self.prog;
        for (i, step) in prog.steps.iter().enumerate()
        {
            match self.peek()? { Some(Ev::StepBegin(x)) if *x == i => self.advance()?, _ => { self.unexpected("step begin")?; } }
            self.gc_guaranteed_this_step = false;
            if (self.bulk_released > 0 || self.bulk_held > 0) && !matches!(step, Step::Direct(WOp::Gc) | Step::AppSetup | Step::Direct(WOp::SigBulk(..)))
            {
                return Err(Stop::Bail(Bail("bulk signals are not collected before other work (not generated)".into())));
            }
            if !self.sys.doomed.is_empty() && !matches!(step, Step::Direct(WOp::Gc) | Step::Direct(WOp::SigClone(_)) | Step::Direct(WOp::SigDrop(_)) | Step::Direct(WOp::SigDropUnwind(_)) | Step::Direct(WOp::SigPrepare(..)) | Step::Direct(WOp::SigMoveInto(..)) | Step::Direct(WOp::Reparent(..)) | Step::Direct(WOp::SigBulk(..)) | Step::Update | Step::AppSetup)
            {
                return Err(Stop::Bail(Bail("a ref-counted spawned system whose signal was dropped is not collected before other work (placement of in-tree collections is unspecified)".into())));
            }
            match step
            {
                Step::Batch(ops) => self.batch(DRIVER, i as u32, ops)?,
                Step::Direct(w) =>
                {
                    let u = uid(DRIVER, i as u32, 0);
                    match self.peek()? { Some(Ev::Now(x)) if *x == u => self.advance()?, _ => { self.unexpected("direct step")?; } }
                    self.sender = (DRIVER, i as u32);
                    self.iss_counter += 1;
                    self.cur_iss = self.iss_counter;
                    self.in_direct_step = true;
                    let r = self.exec_wop(w, u);
                    self.in_direct_step = false;
                    r?;
                    self.expect_tolerant(|e| matches!(e, Ev::NowEnd(x) if *x == u), "end of direct step")?;
                }
                Step::Update => { self.update(frame)?; frame += 1; }
                Step::AppSetup => { self.stats.app_setup_again += 1; }
            }
            self.expect_tolerant(|e| matches!(e, Ev::StepEnd(x) if *x == i), "step end")?;
            for i in std::mem::take(&mut self.gc_overdue_insts) { let t = &mut self.insts[i]; if t.doomed && t.alive && !t.busy { t.alive = false; } }
            for e in std::mem::take(&mut self.gc_overdue)
            {
                if self.ents[e].alive
                {
                    let bits = self.real(e);
                    fail!(self, "C10", "autodespawn-leak", &[], "entity {bits:#x} survived a garbage collection (and the rest of the step) although every clone of its signal had been dropped before the collection started");
                }
            }
            if !self.stack.is_empty() || !self.postponed.is_empty() { fail!(self, "C02", "postponed-never-resolved", &["C11"], "work outstanding at the end of step {i}"); }
            self.payload_deadline("the end of the step", true)?;
            let Some(Ev::Post(post)) = self.peek()?.cloned() else { return self.unexpected("post-step observation"); };
            self.advance()?;
            self.check_post(&post, i)?;
        }
        let _ = self.peek()?;
        self.judge_floats(true)?;
        Ok(())
    }

    fn update(&mut self, frame: u32) -> Res<()>
    {
        self.poll_epoch += 1;
        self.stats.frames += 1;
        let prog: &'a Program = self.prog;
        let n = prog.frame_systems.len();
        let mut polled = false;
        let do_poll = |me: &mut Self, markers: bool| -> Res<()>
        {
            if markers { me.expect_tolerant(|e| matches!(e, Ev::LastPollBegin), "Last: before the plugin's systems")?; }
            me.guaranteed_gc();
            me.sure_epoch += 1;
            me.stats.guaranteed_poll += 1;
            me.poll_point()?;
            me.flush_polled(false)?;
            if markers { me.expect_tolerant(|e| matches!(e, Ev::LastPollEnd), "Last: after the plugin's systems")?; }
            Ok(())
        };
        for si in 0..n
        {
            let f = &prog.frame_systems[si];
            if f.place >= 3 && !polled { polled = true; do_poll(self, true)?; }
            let sys = si as u8;
            self.expect_tolerant(|e| matches!(e, Ev::FrameBegin { sys: s2, frame: f2 } if *s2 == sys && *f2 == frame), "frame system begin")?;
            let ops: &'a [Op] = if f.frames.is_empty() { &[] } else { &f.frames[(frame as usize).min(f.frames.len() - 1)] };
            self.batch(FRAME_BASE + sys, frame, ops)?;
            self.expect_tolerant(|e| matches!(e, Ev::FrameEnd { sys: s2, frame: f2 } if *s2 == sys && *f2 == frame), "frame system end")?;
        }
        if !polled { do_poll(self, n > 0)?; }
        Ok(())
    }

    fn check_post(&mut self, post: &Post, step: usize) -> Res<()>
    {
        // instances
        for (i, obs) in post.insts.iter().enumerate()
        {
            let t = &self.insts[i];
            let Some(alive) = obs else { continue };
            if !t.known { continue; }
            if t.alive && !t.doomed && !t.limbo && !*alive
            {
                let persistent = !self.regs.iter().any(|r| r.inst == i as Inst && r.refcounted);
                if self.prog.insts[i].rc { fail!(self, "C10", "premature-autodespawn", &["C07"], "ref-counted system command {i} is gone after step {step} although the clone of its signal still exists"); }
                if persistent { fail!(self, "C07", "persistent-despawned", &["C16", "C13"], "instance {i} is gone after step {step} although nothing despawned it"); }
                fail!(self, "C07", "reactor-premature-despawn", &[], "ref-counted instance {i} is gone after step {step} while a trigger is still registered");
            }
            if !t.alive && *alive
            {
                if t.once_fired { fail!(self, "C15", "once-entity-leaked", &["C07"], "one-off reactor {i} still exists after it ran (step {step})"); }
                if t.chain_doomed { fail!(self, "C11", "gc-chain-not-settled", &["C07", "C10"], "ref-counted instance {i} lost its last handle when a garbage collection despawned its trigger entity, but that collection left it alive: its despawn is still pending after step {step}"); }
                if self.prog.insts[i].rc && t.sig_released { fail!(self, "C10", "autodespawn-leak", &["C07"], "ref-counted system command {i} still exists after step {step} although its signal was dropped before a garbage collection"); }
                // (a stale notification in the collector's channel must be tolerated: what is queued behind it is collected all the same, C18)
                if self.stale_take_seen { fail!(self, "C07", "reactor-leaked", &["C15", "C18"], "instance {i} still exists after step {step}; it should have been despawned (a collection pass had received a notification for something already gone before)"); }
                fail!(self, "C07", "reactor-leaked", &["C15"], "instance {i} still exists after step {step}; it should have been despawned");
            }
            if !*alive && !t.canary
            {
                fail!(self, "C07", "canary-missing", &["C13"], "instance {i} is despawned but its captured state was never dropped (step {step})");
            }
        }
        for i in 0..self.insts.len()
        {
            // a doomed instance that is observed dead stays dead
            if let Some(Some(false)) = post.insts.get(i) { if self.insts[i].doomed || self.insts[i].limbo { self.insts[i].alive = false; } }
        }
        // slots
        for (s, (alive, a, b)) in post.slots.iter().enumerate()
        {
            let e = self.slots[s];
            let m = &self.ents[e];
            if m.alive != *alive
            {
                // (its collection -- or that of an ancestor -- is pending: the placement of collections is not judged)
                if self.doomed_ents.contains(&e) || self.has_doomed_ancestor(e) { continue; }
                if self.sigs.iter().any(|(se, _)| *se == Some(e)) || self.is_descendant_of_signal(e)
                {
                    if *alive { fail!(self, "C10", "autodespawn-leak", &[], "slot {s} survived although every clone of its signal (or of an ancestor's) was dropped and collected (step {step})"); }
                    fail!(self, "C10", "premature-autodespawn", &[], "slot {s} was despawned while a signal clone still exists (step {step})");
                }
                fail!(self, "C18", "entity-liveness", &["C10", "C08"], "slot {s}: alive={alive}, expected {} (step {step})", m.alive);
            }
            if m.alive && (m.comp[0] != *a || m.comp[1] != *b)
            {
                fail!(self, "C14", "component-value", &[], "slot {s}: components ({a:?},{b:?}), expected ({:?},{:?}) (step {step})", m.comp[0], m.comp[1]);
            }
        }
        if post.res[..] != self.res[..2] { fail!(self, "C14", "resource-value", &[], "resources {:?}, expected {:?} (step {step})", post.res, &self.res[..2]); }
        let want_t = self.res_t_present.then_some(self.res[2]);
        if post.res_t != want_t { fail!(self, "C14", "resource-value", &[], "removable resource is {:?}, expected {want_t:?} (step {step})", post.res_t); }
        // conservation
        let unknown_alive = self.insts.iter().filter(|t| t.created && !t.known && t.alive && !t.doomed && !t.limbo && !matches!(t.origin, Origin::World(_) | Origin::EntityWorld(_) | Origin::App)).count() as i64;
        let unknown_maybe = self.insts.iter().filter(|t| t.created && !t.known && t.alive && (t.doomed || t.limbo) && !matches!(t.origin, Origin::World(_) | Origin::EntityWorld(_) | Origin::App)).count() as i64;
        let lo = unknown_alive + self.sys.extra_entities_lo() + self.bulk_alive;
        let hi = unknown_alive + unknown_maybe + self.sys.extra_entities_hi() + self.bulk_alive;
        if post.excess_entities > hi
        {
            let snap_data = post.snap.as_ref().map(|s| s.data_entities + s.sysevent_data).unwrap_or(0);
            if snap_data > 0 || !self.hooks { fail!(self, "C05", "entity-count-excess", &["C07", "C15", "C11"], "{} entities more than accounted for after step {step} (event bookkeeping entities alive: {snap_data})", post.excess_entities - hi); }
            fail!(self, "C07", "reactor-leaked", &["C15", "C05"], "{} entities more than accounted for after step {step}", post.excess_entities - hi);
        }
        if post.excess_entities < lo { fail!(self, "C07", "reactor-premature-despawn", &["C10"], "{} entities fewer than accounted for after step {step}", lo - post.excess_entities); }
        // entity-world-reactor local data (hooks)
        if !post.ewr_local.is_empty()
        {
            let ns = self.slots.len();
            for k in 0..2usize
            {
                for s in 0..ns
                {
                    let e = self.slots[s];
                    if !self.ents[e].alive { continue; }
                    let has = post.ewr_local[k * ns + s];
                    let want = self.ents[e].ewr[k].is_some();
                    if has && !want { fail!(self, "C16", "ewr-data-leaked", &[], "slot {s} still carries local data of entity world reactor {k} after its last trigger was removed (step {step})"); }
                    if !has && want { fail!(self, "C16", "ewr-data-dropped-early", &[], "slot {s} lost its local data of entity world reactor {k} while triggers remain (step {step})"); }
                }
            }
        }
        // quiescence and table sizes (hooks)
        if let Some(s) = &post.snap
        {
            if s.counter != 0 || s.buffered != 0 || s.trackers.iter().any(|(n, r)| *n != 0 || *r) || s.storages_without_callback != 0 || s.data_entities != 0 || s.sysevent_data != 0
            {
                fail!(self, "C11", "residue-snapshot", &["C05", "C02"], "framework not quiescent after step {step}: {s:?}");
            }
            let tw: usize = self.tables.values().map(|v| v.len()).sum();
            let ent: usize = self.ents.iter().filter(|e| e.alive).map(|e| e.ereg.len()).sum();
            if s.tw_entries != tw || s.entity_entries != ent
            {
                fail!(self, "C01", "table-size-mismatch", &["C06", "C15", "C16"], "registration tables hold {} type-wide / {} entity-scoped entries, expected {tw} / {ent} (step {step})", s.tw_entries, s.entity_entries);
            }
            // watchers of despawned entities stay in the table until a poll sees the despawn (polls are not observable)
            let watch_lo: usize = self.ents.iter().map(|e| e.watchers.len()).sum::<usize>();
            let watch_hi: usize = watch_lo + self.polled.iter().filter(|p| matches!(p.kind, PKind::Despawn)).map(|p| p.must.len()).sum::<usize>();
            if s.despawn_entries < watch_lo || s.despawn_entries > watch_hi
            {
                // (with world reactors around: "adding triggers to a world reactor makes its single system react to them", C16)
                if self.prog.insts.iter().any(|d| matches!(d.origin, Origin::World(_) | Origin::EntityWorld(_))) { fail!(self, "C08", "despawn-table-mismatch", &["C06", "C07", "C16"], "despawn table holds {} entries, expected {watch_lo}..={watch_hi} (step {step})", s.despawn_entries); }
                fail!(self, "C08", "despawn-table-mismatch", &["C06", "C07"], "despawn table holds {} entries, expected {watch_lo}..={watch_hi} (step {step})", s.despawn_entries);
            }
        }
        Ok(())
    }

    /// One call through the syscall family (C17): keyed persistent state, effects applied before the call returns,
    /// errors for missing / running spawned systems.
    fn sys_call(&mut self, kind: SysKind, key: u8, value: u32, cmd: bool, u: u32) -> Res<()>
    {
        use crate::sysfam::{pack, state_id, NKEYS};
        self.stats.sys_calls += 1;
        let state = state_id(kind, key, cmd);
        let mut fkey = key % NKEYS;
        let mut runs = true;
        let mut persist = true;
        match kind
        {
            SysKind::Plain | SysKind::Validated => {}
            SysKind::Once | SysKind::OnceValidated => { persist = false; }
            SysKind::Named(_) => { if cmd { return Ok(()); } self.sys.named.insert(state); }
            SysKind::NamedDirect(_) =>
            {
                if cmd { return Ok(()); }
                if !self.sys.named.contains(&state) { runs = false; }
                else if self.sys.running.contains(&state)
                {
                    // the slot is empty while the system runs, unless an inner recursive call has refilled it: unspecified
                    runs = matches!(self.peek()?, Some(Ev::SysBody { .. }));
                }
            }
            SysKind::RegisterNamed(_) =>
            {
                if cmd { return Ok(()); }
                if self.sys.running.contains(&state) { return bail("a named system was re-registered while it runs (not judged)"); }
                self.sys.named.insert(state);
                self.sys.counts.insert(state, 0);
                runs = false;
            }
            SysKind::Spawned =>
            {
                let k = key as usize % 4;
                // slots 0,1 hold systems returning u32 (direct calls), slots 2,3 unit systems (Commands::spawned_syscall)
                let type_ok = if cmd { k >= 2 } else { k < 2 };
                match self.sys.spawned[k]
                {
                    Some((fk, alive)) if alive && type_ok && !self.sys.running.contains(&state) && self.sys.on_ent[k].map(|e| self.ents[e].alive).unwrap_or(true) => { fkey = fk; }
                    _ => { runs = false; }
                }
            }
        }
        // documented: when a system is called recursively only the outer-most invocation's state persists; inner ones start fresh
        let mut fresh = false;
        if runs && persist && self.sys.running.contains(&state) { persist = false; fresh = true; self.stats.sys_recursive += 1; }
        let mut out = None;
        if runs
        {
            let mut n = if persist { self.sys.counts.get(&state).copied().unwrap_or(0) + 1 } else { 1 };
            let input = pack(state, value);
            match self.peek()?.cloned()
            {
                Some(Ev::SysBody { key: k2, n: n2, input: i2, chg }) if k2 == fkey && i2 == input =>
                {
                    // inner invocations of a recursive call: their state is unspecified (fresh, or shared among the inner ones)
                    if fresh { n = n2; }
                    if !fresh && chg != (n2 == 1) { fail!(self, "C17", "syscall-state", &["C13"], "call through {kind:?} key {key}: call #{n2} on this state sees a never-touched resource as changed={chg} (the change-detection baseline is part of the persistent system state)"); }
                    if n2 != n { fail!(self, "C17", "syscall-state", &["C13"], "call through {kind:?} key {key}: the system's Local shows {n2}, expected {n} (state must persist per key and be independent between keys)"); }
                    self.advance()?;
                }
                other => fail!(self, "C17", "syscall-not-run", &[], "call through {kind:?} key {key} value {value}: expected the callee to run, observed {other:?}"),
            }
            self.sys.call_seq += 1;
            let seq = self.sys.call_seq;
            self.sys.running.push(state);
            let saved = self.sender;
            self.sender = (CALLEE_BASE + state, seq);
            let prog: &'a Program = self.prog;
            self.sys.calls_per_key[fkey as usize % 3] += 1;
            let script: &'a [Op] = prog.callee_script(fkey, self.sys.calls_per_key[fkey as usize % 3]);
            let callee_dw = prog.callee_dw.get(fkey as usize % 3).copied().unwrap_or(false);
            if callee_dw { self.stats.sys_dw_calls += 1; }
            let (issued, _) = self.issue_script_r(script, CALLEE_BASE + state, seq, false, false, callee_dw)?;
            match self.peek()?
            {
                Some(Ev::SysBodyEnd { key: k2, n: n2 }) if *k2 == fkey && *n2 == n => self.advance()?,
                _ => { self.unexpected("end of the callee body")?; }
            }
            // everything the callee queued is applied before the call returns
            // (what it queued on the world's own queue, through a `DeferredWorld`, is applied once the system is back in its place:
            // a call to the same system from there is an ordinary later call, not a recursive one)
            if callee_dw
            {
                if let Some(pos) = self.sys.running.iter().rposition(|s| *s == state) { self.sys.running.remove(pos); }
                if persist { self.sys.counts.insert(state, n); }
            }
            self.apply_issued_ctx(issued, true)?;
            // ... and so is every other deferred buffer it has (`ParallelCommands`, a custom `Deferred<T>`), in parameter order
            // (the `ParamSet` forms -- spawned slots 1 and 3 -- carry no extra buffers)
            let ps_form = matches!(kind, SysKind::Spawned) && key % 2 == 1;
            if !callee_dw && !ps_form
            {
                for which in 0..2u8
                {
                    match self.peek()?.cloned()
                    {
                        Some(Ev::SysPar { key: k2, n: n2, which: w2 }) if k2 == fkey && n2 == n && w2 == which => self.advance()?,
                        other => fail!(self, "C17", "syscall-effects-late", &["C09", "C02"], "call through {kind:?} key {key}: the callee's {} was not applied before the call returned; observed {other:?}", if which == 0 { "`ParallelCommands` buffer" } else { "custom `Deferred<T>` buffer" }),
                    }
                }
            }
            self.sender = saved;
            if !callee_dw
            {
                if let Some(pos) = self.sys.running.iter().rposition(|s| *s == state) { self.sys.running.remove(pos); }
                if persist { self.sys.counts.insert(state, n); }
            }
            out = Some((value & 0xFFFF) * 1000 + n);
        }
        else if matches!(kind, SysKind::RegisterNamed(_)) { out = Some(0); }
        else if let Some(Ev::SysBody { .. }) = self.peek()?
        {
            fail!(self, "C17", "spawned-error-contract", &[], "call through {kind:?} key {key} must fail without running anything (missing, despawned or currently running system), but a callee ran");
        }
        if !cmd
        {
            match self.peek()?.cloned()
            {
                Some(Ev::SysRet { uid, out: o2 }) if uid == u =>
                {
                    if o2 != out { fail!(self, "C17", "syscall-return", &[], "call through {kind:?} key {key} value {value} returned {o2:?}, expected {out:?}"); }
                    self.advance()?;
                }
                other => fail!(self, "C17", "syscall-effects-late", &["C09", "C02"], "call through {kind:?} key {key}: expected the call to return now (all queued commands applied), observed {other:?}"),
            }
        }
        Ok(())
    }

    /// Is an enclosing collection pass busy despawning this entity (or an ancestor of it, recursively)?
    fn being_taken(&self, e: EntId) -> bool
    {
        let mut cur = Some(e);
        let mut guard = 0;
        while let Some(x) = cur
        {
            if self.gc_taking.contains(&self.ents[x].real) { return true; }
            cur = self.ents[x].parent;
            guard += 1;
            if guard > 16 { break; }
        }
        false
    }

    fn has_doomed_ancestor(&self, e: EntId) -> bool
    {
        let mut cur = self.ents[e].parent;
        let mut guard = 0;
        while let Some(p) = cur
        {
            if self.doomed_ents.contains(&p) { return true; }
            cur = self.ents[p].parent;
            guard += 1;
            if guard > 16 { break; }
        }
        false
    }

    fn is_descendant_of_signal(&self, e: EntId) -> bool
    {
        let mut cur = self.ents[e].parent;
        let mut guard = 0;
        while let Some(p) = cur
        {
            if self.sigs.iter().any(|(se, _)| *se == Some(p)) { return true; }
            cur = self.ents[p].parent;
            guard += 1;
            if guard > 16 { break; }
        }
        false
    }

}

pub(crate) fn bail<T>(s: &str) -> Res<T> { Err(Stop::Bail(Bail(s.into()))) }

/// Reference state of the syscall family.
#[derive(Default)]
pub struct SysModel
{
    counts: HashMap<u8, u32>,
    named: std::collections::HashSet<u8>,
    running: Vec<u8>,
    /// (function key, alive)
    spawned: [Option<(u8, bool)>; 4],
    call_seq: u32,
    calls_per_key: [u32; 3],
    rc_held: [bool; 4],
    /// spawned-system slots whose signal was dropped: gone after the next guaranteed collection
    doomed: Vec<usize>,
    on_ent: [Option<usize>; 4],
}
impl SysModel
{
    pub fn extra_entities_lo(&self) -> i64 { 0 }
    pub fn extra_entities_hi(&self) -> i64 { 0 }
}
