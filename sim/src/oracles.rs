//! History rules that do not depend on the lock-step spec: they stay valid even where the spec stops judging.
use crate::dsl::*;
use crate::model::Verdict;
use crate::obs::Ev;
use std::collections::HashMap;

pub fn history_rules(prog: &Program, trace: &[Ev]) -> Vec<Verdict>
{
    let storage_fault = serde_json::to_string(prog).map(|s| s.contains("TakeStorage")).unwrap_or(true);
    let mut out = Vec::new();
    let mut runs: HashMap<u8, u32> = HashMap::new();
    let mut dropped: HashMap<u32, usize> = HashMap::new();
    let push = |out: &mut Vec<Verdict>, prop: &'static str, rule: &'static str, also: &'static [&'static str], pos: usize, msg: String|
    {
        if !out.iter().any(|v: &Verdict| v.rule == rule) { out.push(Verdict { prop, rule, also, pos, msg }); }
    };
    for (pos, ev) in trace.iter().enumerate()
    {
        match ev
        {
            Ev::Runner(k, e) if *k == crate::obs::RK_DISCARD && !storage_fault => push(&mut out, "C02", "h-postponed-discarded", &["C01", "C09", "C11"], pos, format!("a postponed command for system entity {e:#x} was discarded at the end of a tree")),
            Ev::Bystander(m) =>
            {
                if m.starts_with("C10") { push(&mut out, "C10", "h-other-world-affected", &["C11"], pos, m.clone()); }
                else { push(&mut out, "C01", "h-other-world-affected", &["C11"], pos, m.clone()); }
            }
            Ev::Panic(m) => push(&mut out, "C18", "h-panic", &["C01", "C02", "C03", "C04", "C05", "C06", "C07", "C08", "C09", "C10", "C11", "C12", "C13", "C14", "C15", "C16", "C17"], pos, format!("panic: {m}")),
            Ev::Probe { uid, s } if !s.is_empty() => push(&mut out, "C04", "h-probe-saw-data", &[], pos, format!("probe {uid:#x} observed {s:?}")),
            Ev::Body { inst, n, cap, s, chg } =>
            {
                let r = runs.entry(*inst).or_insert(0);
                *r += 1;
                if *n != *r || *cap != *r { push(&mut out, "C13", "h-local-continuity", &[], pos, format!("instance {inst}: run #{r} sees Local={n}, captured={cap}")); }
                if *chg != (*r == 1) { push(&mut out, "C13", "h-change-detection-baseline", &["C17"], pos, format!("instance {inst}: run #{r} sees a never-touched resource as changed={chg}")); }
                if s.inconsistent { push(&mut out, "C03", "h-reader-accessors-disagree", &["C04"], pos, format!("instance {inst} run {n}: the accessors of one event reader contradict each other ({s:?})")); }
                if s.second_take { push(&mut out, "C04", "h-second-take", &[], pos, format!("instance {inst} took a system event twice")); }
                if s.count() > 1 { push(&mut out, "C03", "h-saw-two-events", &["C04", "C12"], pos, format!("instance {inst} run {n} sees more than one event: {s:?}")); }
            }
            Ev::Drop(id) =>
            {
                let c = dropped.entry(*id).or_insert(0);
                *c += 1;
                if *c > 1 { push(&mut out, "C05", "h-drop-twice", &[], pos, format!("payload {id:#x} dropped twice")); }
            }
            Ev::Post(p) =>
            {
                if let Some(s) = &p.snap
                {
                    if s.counter != 0 || s.buffered != 0 || s.trackers.iter().any(|(n, r)| *n != 0 || *r) || s.storages_without_callback != 0
                    {
                        push(&mut out, "C11", "h-residue-snapshot", &[], pos, format!("framework not quiescent between trees: {s:?}"));
                    }
                    if s.data_entities != 0 || s.sysevent_data != 0 { push(&mut out, "C05", "h-bookkeeping-entity-outlives-tree", &["C11"], pos, format!("event bookkeeping entities alive between trees: {s:?}")); }
                }
            }
            _ => {}
        }
    }
    out
}
