#![recursion_limit = "256"]
mod dsl;
mod gen;
mod harness;
mod model;
mod obs;
mod oracles;
mod shrink;
mod sysfam;
mod threads;

use dsl::*;
use model::{Outcome, Stats, Verdict};
use serde_json::json;
use std::collections::HashSet;
use std::hash::{Hash, Hasher};
use std::sync::Arc;
use std::time::Instant;

pub const PROPS: [&str; 18] = ["C01", "C02", "C03", "C04", "C05", "C06", "C07", "C08", "C09", "C10", "C11", "C12", "C13", "C14", "C15", "C16", "C17", "C18"];

pub fn owns(prop: &str, v: &Verdict) -> bool { v.prop == prop || v.also.contains(&prop) }

pub struct RunResult
{
    pub verdicts: Vec<Verdict>,
    pub inconclusive: Option<String>,
    pub stats: Stats,
    pub hash: u64,
    pub trace_len: usize,
}

fn hash_trace(trace: &[obs::Ev]) -> u64
{
    let mut h = std::collections::hash_map::DefaultHasher::new();
    for e in trace { e.hash(&mut h); }
    h.finish()
}

/// Runs one program against the real code and judges the observed trace.
pub fn run_and_check(prog: &Arc<Program>) -> (Vec<obs::Ev>, RunResult)
{
    let trace = harness::run_program(prog);
    let res = model::Checker::new(prog, &trace, harness::HOOKS).check();
    let mut verdicts = res.verdicts;
    verdicts.extend(oracles::history_rules(prog, &trace));
    let mut stats = res.stats;
    stats.ev_total = trace.len() as u64;
    stats.probes = trace.iter().filter(|e| matches!(e, obs::Ev::Probe { .. })).count() as u64;
    let inconclusive = match res.outcome { Outcome::Ok => None, Outcome::Inconclusive(s) => Some(s) };
    let hash = hash_trace(&trace);
    let n = trace.len();
    (trace, RunResult { verdicts, inconclusive, stats, hash, trace_len: n })
}

fn nontrivial(prop: &str, s: &Stats) -> bool
{
    match prop
    {
        "C01" => s.registrations >= 2 && s.deliveries >= 2,
        "C02" => s.postponed >= 1,
        "C03" => s.postponed >= 2 || s.multi_kind_same_tree >= 1,
        "C04" => s.probes >= 1 && s.bodies >= 1,
        "C05" => s.payloads >= 1 && (s.skipped_dead + s.postponed + s.revokes_applied >= 1),
        "C06" => s.revokes_applied >= 1 && s.deliveries >= 1,
        "C07" => s.doomed_insts >= 1 || s.kills >= 1,
        "C08" => s.polled_events >= 1,
        "C09" => s.max_depth >= 2,
        "C10" => s.sig_zero >= 1,
        "C11" => s.roots >= 2 && (s.skipped_dead + s.postponed >= 1),
        "C12" => s.fifo_pairs_checked >= 2 && s.postponed >= 1,
        "C13" => s.bodies >= 3,
        "C14" => s.setifneq_equal + s.setifneq_diff + s.inserts_dead_at_apply >= 1,
        "C15" => s.once_fired >= 1,
        "C16" => s.ewr_bodies >= 1,
        "C17" => s.sys_calls >= 1,
        "C18" => s.skipped_dead >= 1,
        _ => true,
    }
}

fn nontrivial_rule(prop: &str) -> &'static str
{
    match prop
    {
        "C01" => "programs are drawn from the seeded generator (profile C01, plus a quarter of the budget again in the cross profile C16: world / entity world reactors); non-trivial = at least 2 registrations applied and 2 reactions delivered; distinct = distinct hash of the full observed trace",
        "C02" => "profiles C02 and C09P (polled reactions at tree boundaries), plus a fifth of the budget again in the cross profile C17 (trees started from inside syscall-family calls); non-trivial = at least one delivery postponed because its target was executing; distinct = distinct observed trace",
        "C03" => "profile C03; non-trivial = at least 2 deliveries postponed for a busy system or one system reacting to 2+ event kinds in one tree; distinct = distinct observed trace",
        "C04" => "profile C04; non-trivial = at least one probe system with every reader ran and one reactor body ran; distinct = distinct observed trace",
        "C05" => "profile C05; non-trivial = at least one payload event and at least one of: reader skipped (dead), reader postponed, revoke applied; distinct = distinct observed trace",
        "C06" => "profile C06 (plus a quarter of the budget again in each of the cross profiles C16: world / entity world reactors, and C08: removals and despawns); non-trivial = at least one revoke applied and one reaction delivered; distinct = distinct observed trace",
        "C07" => "profile C07; non-trivial = a ref-count reached zero or a reactor was despawned; distinct = distinct observed trace",
        "C08" => "profiles C08 and C08F (App frames); non-trivial = at least one removal/despawn event raised; distinct = distinct observed trace",
        "C09" => "profiles C09 and C09P (polled reactions at tree boundaries); non-trivial = tree depth >= 2; distinct = distinct observed trace",
        "C10" => "profile C10 (histories at driver level) and half of the budget again in profile C10T (signals released and collections requested inside reaction trees) plus shuttle thread schedules; non-trivial = a signal's last clone dropped; distinct = distinct observed trace / schedule outcome",
        "C11" => "profiles C11 and C09P (polled reactions at tree boundaries); non-trivial = 2+ trees on one world with an aborted or postponed delivery; distinct = distinct observed trace",
        "C12" => "profile C12; non-trivial = 2+ sender/target FIFO pairs checked with a postponed delivery; distinct = distinct observed trace",
        "C13" => "profile C13 (plus 40 % of the budget again in the cross profile C17: state of syscall-family systems); non-trivial = 3+ system runs; distinct = distinct observed trace",
        "C14" => "profile C14; non-trivial = a set_if_neq call or an insert on an entity despawned before application; distinct = distinct observed trace",
        "C15" => "profile C15; non-trivial = a one-off reactor fired; distinct = distinct observed trace",
        "C16" => "profile C16; non-trivial = an entity world reactor body ran; distinct = distinct observed trace",
        "C17" => "profile C17; non-trivial = a syscall-family call was made; distinct = distinct observed trace",
        _ => "profile C18 (plus a quarter of the budget again in each of the cross profiles C14: accessor surface, and C16: world / entity world reactors); non-trivial = a delivery was skipped because its target was despawned; distinct = distinct observed trace",
    }
}

struct Args { prop: String, tier: String, seed: u64, runs: Option<u64>, threads: usize, out: Option<String>, profile: Option<String> }

/// Profiles explored for a property, each with its share (per cent) of the tier's run budget. The first one is the property's own
/// workload mix; a second entry with a full share is a second mix for the same property; the small shares are *cross* profiles:
/// features that the property's own mix leaves out (entity world reactors, the accessor surface) but through which it can be
/// broken just as well.
fn profiles_for(prop: &str) -> Vec<(&'static str, u64)>
{
    match prop
    {
        "C01" => vec![("C01", 100), ("C16", 25)], "C02" => vec![("C02", 50), ("C09P", 50), ("C17", 20)], "C03" => vec![("C03", 100)], "C04" => vec![("C04", 100)], "C05" => vec![("C05", 100)],
        "C06" => vec![("C06", 100), ("C16", 25), ("C08", 25)], "C07" => vec![("C07", 100)], "C08" => vec![("C08", 50), ("C08F", 50)], "C09" => vec![("C09", 50), ("C09P", 50)], "C10" => vec![("C10", 100), ("C10T", 50)],
        "C11" => vec![("C11", 50), ("C09P", 50)], "C12" => vec![("C12", 100)], "C13" => vec![("C13", 100), ("C17", 40)], "C14" => vec![("C14", 100)], "C15" => vec![("C15", 100)], "C16" => vec![("C16", 100)],
        "C17" => vec![("C17", 100)], _ => vec![("C18", 100), ("C14", 25), ("C16", 25)],
    }
}

pub fn run_seed(vseed: u64, profile: &str, idx: u64) -> u64 { gen::mix(gen::mix(vseed, profile.bytes().fold(7u64, |a, b| a.wrapping_mul(131).wrapping_add(b as u64))), idx) }

struct Found { idx: u64, seed: u64, profile: &'static str, prog: Program, verdict: Verdict }

#[derive(Default)]
struct Agg
{
    stats: Stats,
    evaluations: u64,
    inconclusive: u64,
    inconclusive_reasons: std::collections::BTreeMap<String, u64>,
    distinct: HashSet<u64>,
    nontrivial: u64,
    found: Vec<Found>,
    other_props: std::collections::BTreeMap<String, u64>,
    samples: Vec<serde_json::Value>,
    max_trace: usize,
}

fn explore(prop: &str, profile: &'static str, vseed: u64, runs: u64, threads: usize, thorough: bool) -> Agg
{
    let mut cfg = gen::profile(profile);
    // the thorough tier alternates between the quick tier's program sizes and larger ones (second half of the run indices)
    let mut big = cfg.clone();
    gen::scale_up(&mut big);
    if !thorough { big = cfg.clone(); }
    let _ = &mut cfg;
    let mut handles = Vec::new();
    for t in 0..threads
    {
        let cfg = cfg.clone();
        let big = big.clone();
        let prop = prop.to_string();
        handles.push(std::thread::Builder::new().stack_size(64 << 20).spawn(move ||
        {
            let mut a = Agg::default();
            let mut idx = t as u64;
            while idx < runs
            {
                let seed = run_seed(vseed, profile, idx);
                let prog = Arc::new(gen::generate(seed, if idx % 2 == 1 { &big } else { &cfg }));
                let (trace, r) = run_and_check(&prog);
                a.evaluations += 1;
                a.stats.add(&r.stats);
                a.max_trace = a.max_trace.max(r.trace_len);
                if let Some(why) = &r.inconclusive { a.inconclusive += 1; *a.inconclusive_reasons.entry(why.chars().take(60).collect()).or_default() += 1; }
                if nontrivial(&prop, &r.stats)
                {
                    a.nontrivial += 1;
                    a.distinct.insert(r.hash);
                    if a.samples.len() < 2 && idx < 64
                    {
                        a.samples.push(json!({ "profile": profile, "run_index": idx, "run_seed": seed, "trace_events": r.trace_len,
                            "system_runs": r.stats.bodies, "commands_applied": r.stats.applies, "program": serde_json::to_value(&*prog).unwrap(),
                            "observed_trace_head": trace.iter().filter(|e| !matches!(e, obs::Ev::Post(_))).take(40).map(|e| format!("{e:?}")).collect::<Vec<_>>() }));
                    }
                }
                for v in &r.verdicts
                {
                    if owns(&prop, v) { if a.found.len() < 4 { a.found.push(Found { idx, seed, profile, prog: (*prog).clone(), verdict: v.clone() }); } break; }
                    else { *a.other_props.entry(v.prop.to_string()).or_default() += 1; }
                }
                idx += threads as u64;
            }
            a
        }).unwrap());
    }
    let mut total = Agg::default();
    for h in handles
    {
        let a = h.join().expect("worker panicked");
        total.stats.add(&a.stats);
        total.evaluations += a.evaluations;
        total.inconclusive += a.inconclusive;
        for (k, v) in a.inconclusive_reasons { *total.inconclusive_reasons.entry(k).or_default() += v; }
        total.distinct.extend(a.distinct);
        total.nontrivial += a.nontrivial;
        total.found.extend(a.found);
        for (k, v) in a.other_props { *total.other_props.entry(k).or_default() += v; }
        total.samples.extend(a.samples);
        total.max_trace = total.max_trace.max(a.max_trace);
    }
    total.found.sort_by_key(|f| f.idx);
    total.samples.sort_by_key(|s| s["run_index"].as_u64().unwrap_or(0));
    total.samples.truncate(2);
    total
}

fn verif_dir() -> std::path::PathBuf { std::env::var("VERIF_DIR").map(Into::into).unwrap_or_else(|_| "/verif".into()) }

#[derive(serde::Serialize, serde::Deserialize)]
struct ReplayFile
{
    version: u32,
    property: String,
    rule: String,
    message: String,
    profile: String,
    verif_seed: u64,
    run_index: u64,
    run_seed: u64,
    original_size: usize,
    hooks: bool,
    program: Program,
    /// for thread scenarios: shuttle schedule string
    schedule: Option<String>,
}

fn known_findings(prop: &str) -> Vec<(String, String, String)>
{
    // (rule, substring, what) of open findings for this property
    let p = verif_dir().join("known_findings.json");
    let Ok(txt) = std::fs::read_to_string(p) else { return Vec::new() };
    let Ok(v) = serde_json::from_str::<serde_json::Value>(&txt) else { return Vec::new() };
    let mut out = Vec::new();
    for f in v["findings"].as_array().cloned().unwrap_or_default()
    {
        if f["status"].as_str() != Some("open") { continue; }
        if f["property"].as_str() != Some(prop) { continue; }
        out.push((f["rule"].as_str().unwrap_or("").to_string(), f["message_contains"].as_str().unwrap_or("").to_string(), f["what"].as_str().unwrap_or("").to_string()));
    }
    out
}

fn cmd_check(a: Args) -> i32
{
    let t0 = Instant::now();
    let prop = a.prop.as_str();
    let thorough = a.tier == "thorough";
    let profiles: Vec<(&'static str, u64)> = match &a.profile { Some(p) => vec![(Box::leak(p.clone().into_boxed_str()), 100)], None => profiles_for(prop) };
    let default_runs: u64 = if thorough { 4_000_000 } else { 300_000 };
    let mut total = Agg::default();
    for (p, share) in &profiles
    {
        let runs = a.runs.unwrap_or(default_runs) * share / 100;
        let ag = explore(prop, p, a.seed, runs, a.threads, thorough);
        total.stats.add(&ag.stats);
        total.evaluations += ag.evaluations;
        total.inconclusive += ag.inconclusive;
        for (k, v) in ag.inconclusive_reasons { *total.inconclusive_reasons.entry(k).or_default() += v; }
        total.distinct.extend(ag.distinct);
        total.nontrivial += ag.nontrivial;
        total.found.extend(ag.found);
        for (k, v) in ag.other_props { *total.other_props.entry(k).or_default() += v; }
        total.samples.extend(ag.samples);
        total.max_trace = total.max_trace.max(ag.max_trace);
    }
    // thread scenario for C10
    let mut thread_cov = serde_json::Value::Null;
    let mut violations = 0;
    let mut lines = Vec::new();
    if prop == "C10"
    {
        let iters = if thorough { 400_000 } else { 20_000 };
        let (cov, viol) = threads::explore(a.seed, iters, &verif_dir());
        thread_cov = cov;
        for (msg, path) in viol { violations += 1; lines.push(format!("VIOLATION property=C10 replay={path}")); eprintln!("C10 thread scenario: {msg}"); }
    }
    let known = known_findings(prop);
    let mut known_printed = HashSet::new();
    // report the first (smallest run index) violation per profile, minimised
    let mut reported = HashSet::new();
    for f in &total.found
    {
        if let Some((_, _, what)) = known.iter().find(|(rule, sub, _)| rule == f.verdict.rule && f.verdict.msg.contains(sub.as_str()))
        {
            if known_printed.insert(what.clone()) { println!("KNOWN-FINDING: property={prop} {what}"); }
            continue;
        }
        if !reported.insert((f.profile, f.verdict.rule)) { continue; }
        violations += 1;
        let rule = f.verdict.rule;
        let small = shrink::shrink(&f.prog, |p| { let (_, r) = run_and_check(&Arc::new(p.clone())); r.verdicts.iter().any(|v| owns(prop, v) && v.rule == rule) }, 4000);
        let (_, r) = run_and_check(&Arc::new(small.clone()));
        let v = r.verdicts.iter().find(|v| owns(prop, v) && v.rule == rule).cloned().unwrap_or(f.verdict.clone());
        let dir = verif_dir().join("replays");
        let _ = std::fs::create_dir_all(&dir);
        let path = dir.join(format!("{prop}-{}-{}-{}.json", f.profile, a.seed, f.idx));
        let rf = ReplayFile { version: 1, property: prop.into(), rule: rule.into(), message: v.msg.clone(), profile: f.profile.into(), verif_seed: a.seed, run_index: f.idx,
            run_seed: f.seed, original_size: f.prog.size(), hooks: harness::HOOKS, program: small, schedule: None };
        std::fs::write(&path, serde_json::to_string_pretty(&rf).unwrap()).expect("write replay");
        eprintln!("{prop} [{}] {}: {} (run {} seed {}; program size {} -> {})", v.prop, v.rule, v.msg, f.idx, f.seed, rf.original_size, rf.program.size());
        lines.push(format!("VIOLATION property={prop} replay={}", path.display()));
    }
    let wall = t0.elapsed().as_secs_f64();
    // evidence
    let s = &total.stats;
    let stats_map: serde_json::Map<String, serde_json::Value> = s.fields().into_iter().map(|(k, v)| (k.to_string(), json!(v))).collect();
    let evidence = json!({
        "property_id": prop,
        "tier": if thorough { "thorough" } else { "quick" },
        "seed": a.seed,
        "level": "exploration",
        "coverage": {
            "evaluations": total.evaluations,
            "distinct_nontrivial": total.distinct.len(),
            "nontrivial_runs": total.nontrivial,
            "rule": nontrivial_rule(prop),
            "samples": total.samples,
            "profiles": profiles,
            "runs_per_hour": (total.evaluations as f64 / wall.max(0.001) * 3600.0) as u64,
            "simulated_time": { "unit": "logical (no clock in the system under test)", "frames": s.frames, "reaction_trees": s.roots, "commands_applied": s.applies, "system_runs": s.bodies, "trace_events": s.ev_total, "longest_trace": total.max_trace },
            "faults_fired": {
                "F1_F2_delivery_to_despawned_target": s.skipped_dead, "F2_target_died_while_postponed": s.skipped_dead_postponed, "F4_self_despawn_while_running": s.kill_self,
                "system_despawned": s.kills, "F7_revoke_applied": s.revokes_applied, "F7_revoke_inside_tree": s.revoke_mid_dispatch, "F8_error_return": s.err_returns,
                "F5_registration_on_dead_entity": s.reg_dead_entity, "F5_insert_on_entity_dead_at_apply": s.inserts_dead_at_apply, "F6_A1_event_for_dead_entity": s.a1_ambiguous,
                "F11_recursive_despawn": s.entity_recursive_despawn, "F14_slot_respawned": s.slot_respawn, "payload_released_by_abort": s.payload_abort_release,
                "refcount_reached_zero": s.doomed_insts, "signal_last_clone_dropped": s.sig_zero, "removal_or_despawn_events": s.polled_events, "removal_or_despawn_events_inside_tree": s.polled_in_tree,
                "F13_guaranteed_gc_points": s.guaranteed_gc, "F13_guaranteed_poll_points": s.guaranteed_poll,
                "repeated_setup_auto_despawn": s.app_setup_again, "reactive_resource_removed": s.res_removed, "resource_trigger_while_resource_absent": s.res_trigger_while_absent,
                "entity_world_reactor_member_re_added": s.ewr_readd, "bulk_signals_released_between_two_collections": s.bulk_collected
            },
            "rare_condition_probes": {
                "watched_entity_stripped_while_alive_then_despawned": s.reactor_strip,
                "postponed_deliveries": s.postponed, "max_postponed_for_one_target": s.max_postponed_one_target, "nested_replay": s.nested_replay, "payload_with_zero_listeners": s.payload_zero_listeners,
                "same_system_two_kinds_one_tree": s.multi_kind_same_tree, "removal_reinsert_removal_between_polls": s.removal_reinsert_removal, "once_fired": s.once_fired,
                "once_triggered_again_after_firing": s.once_retrigger_after_fire, "seven_or_more_reactors_on_one_key": s.reactors_per_key_ge7, "exclusive_reactor_bodies": s.excl_bodies,
                "max_tree_depth": s.max_depth, "ewr_bodies": s.ewr_bodies, "ewr_no_data_accepted_A5": s.ewr_nodata_ok, "set_if_neq_equal": s.setifneq_equal, "set_if_neq_different": s.setifneq_diff, "syscall_family_calls": s.sys_calls,
                "accessor_surface_ops": s.acc_ops, "single_accessors_with_exactly_one_holder": s.single_acc, "largest_bulk_release": s.max_bulk, "syscall_same_key_recursion": s.sys_recursive,
                "deferred_world_actor_bodies": s.dw_bodies, "deferred_world_actor_own_command_postponed": s.dw_self_postponed, "deferred_world_actor_own_command_ran_at_once": s.dw_self_ran,
                "removal_or_despawn_after_the_last_poll_of_its_tree": s.polled_after_last_poll, "syscall_callee_queuing_through_deferred_world": s.sys_dw_calls,
                "direct_trigger_while_own_commands_pending_on_world_queue": s.trigger_raced_pending
            },
            "spec_choice_points": { "N1_sibling_order_not_first": s.sibling_reorder, "optional_delivery_taken": s.optional_taken, "optional_delivery_not_taken": s.optional_skipped, "N2_polled_reactions": s.polled_reactions },
            "not_judged_runs": total.inconclusive,
            "not_judged_reasons": total.inconclusive_reasons,
            "violations_of_other_properties_seen": total.other_props,
            "thread_scenario": thread_cov,
            "hooks_enabled": harness::HOOKS,
            "real_code": ["bevy_cobweb (all of src/)", "bevy_ecs World / command queues / schedules", "bevy_app main schedule", "bevy_hierarchy", "crossbeam channels", "std::sync::Arc"],
            "stubs": [],
            "harness_provided": ["component/resource/payload types", "actor bodies interpreting the program", "driver", "shuttle scheduler in place of the OS scheduler (C10 thread scenario only)"],
            "all_counters": stats_map,
        },
        "assumptions": [
            "Bevy's command semantics: a system's commands apply in order, each fully, before the next",
            "single-threaded executor of the pinned feature set (no multi_threaded feature)",
            "generator bounds of DESIGN 2.1 (no duplicate live type-wide / despawn registration of one reactor across calls; ref-counted registration at most once per system; same-key recursion of the syscall family only as documented)",
            "ambiguity rulings A1-A8 of DESIGN 4.3 (both behaviours accepted where the properties are silent; where collections happen is the implementation's choice)",
            "the cfg(ukoehb_bevy_cobweb_verif) hooks report runner events and internal table sizes faithfully; the harness's own remove hook reports despawns of slot entities"
        ],
        "wall_s": wall,
        "violations": violations,
    });
    let out = a.out.clone().unwrap_or_else(|| verif_dir().join("evidence").join(format!("{prop}.json")).display().to_string());
    if let Some(parent) = std::path::Path::new(&out).parent() { let _ = std::fs::create_dir_all(parent); }
    std::fs::write(&out, serde_json::to_string_pretty(&evidence).unwrap()).expect("write evidence");
    println!("{prop} {}: {} runs, {} non-trivial ({} distinct), {} not judged, {:.1}s, violations={violations}", a.tier, total.evaluations, total.nontrivial, total.distinct.len(), total.inconclusive, wall);
    for l in &lines { println!("{l}"); }
    if violations > 0 { 1 } else { 0 }
}

fn cmd_replay(path: &str) -> i32
{
    let txt = match std::fs::read_to_string(path) { Ok(t) => t, Err(e) => { eprintln!("cannot read {path}: {e}"); return 2; } };
    if let Ok(v) = serde_json::from_str::<serde_json::Value>(&txt) { if v.get("tprog").is_some() { return threads::replay(&Program::default(), "", path); } }
    let rf: ReplayFile = match serde_json::from_str(&txt) { Ok(r) => r, Err(e) => { eprintln!("bad replay file: {e}"); return 2; } };
    let (trace, r) = run_and_check(&Arc::new(rf.program.clone()));
    if std::env::var("VERBOSE").is_ok() { for (i, e) in trace.iter().enumerate() { println!("{i:4} {e:?}"); } }
    for v in &r.verdicts
    {
        if owns(&rf.property, v) && v.rule == rf.rule
        {
            println!("reproduced: [{}] {} at event {}: {}", v.prop, v.rule, v.pos, v.msg);
            println!("VIOLATION property={} replay={}", rf.property, path);
            return 1;
        }
    }
    println!("replay did not reproduce {} / {} (verdicts now: {:?})", rf.property, rf.rule, r.verdicts.iter().map(|v| (v.prop, v.rule)).collect::<Vec<_>>());
    0
}

fn cmd_show(profile: &str, vseed: u64, idx: u64)
{
    let cfg = gen::profile(profile);
    let seed = run_seed(vseed, Box::leak(profile.to_string().into_boxed_str()), idx);
    let prog = Arc::new(gen::generate(seed, &cfg));
    println!("{}", serde_json::to_string_pretty(&*prog).unwrap());
    let (trace, r) = run_and_check(&prog);
    for (i, e) in trace.iter().enumerate() { println!("{i:4} {e:?}"); }
    println!("verdicts: {:#?}\ninconclusive: {:?}", r.verdicts, r.inconclusive);
}

/// Prints one line per run with the hash of (program, trace, verdicts): used to prove determinism across processes.
fn cmd_hashes(profile: &str, vseed: u64, runs: u64, threads: usize)
{
    let profile: &'static str = Box::leak(profile.to_string().into_boxed_str());
    let cfg = gen::profile(profile);
    let mut handles = Vec::new();
    for t in 0..threads
    {
        let cfg = cfg.clone();
        handles.push(std::thread::Builder::new().stack_size(64 << 20).spawn(move ||
        {
            let mut out = Vec::new();
            let mut idx = t as u64;
            while idx < runs
            {
                let seed = run_seed(vseed, profile, idx);
                let prog = Arc::new(gen::generate(seed, &cfg));
                let (_, r) = run_and_check(&prog);
                let mut h = std::collections::hash_map::DefaultHasher::new();
                serde_json::to_string(&*prog).unwrap().hash(&mut h);
                r.hash.hash(&mut h);
                for v in &r.verdicts { v.prop.hash(&mut h); v.rule.hash(&mut h); v.pos.hash(&mut h); v.msg.hash(&mut h); }
                r.inconclusive.hash(&mut h);
                out.push((idx, h.finish()));
                idx += threads as u64;
            }
            out
        }).unwrap());
    }
    let mut all: Vec<(u64, u64)> = handles.into_iter().flat_map(|h| h.join().unwrap()).collect();
    all.sort();
    for (i, h) in all { println!("{i} {h:016x}"); }
}

fn main()
{
    obs::install_panic_hook();
    let argv: Vec<String> = std::env::args().collect();
    let get = |name: &str| argv.iter().position(|a| a == name).and_then(|i| argv.get(i + 1)).cloned();
    let seed = get("--seed").and_then(|s| s.parse().ok()).or_else(|| std::env::var("VERIF_SEED").ok().and_then(|s| s.parse().ok())).unwrap_or(20260928);
    let threads = get("--threads").and_then(|s| s.parse().ok()).unwrap_or_else(|| std::thread::available_parallelism().map(|n| n.get()).unwrap_or(8).min(16));
    let code = match argv.get(1).map(|s| s.as_str())
    {
        Some("check") =>
        {
            let prop = argv.get(2).cloned().unwrap_or_default();
            if !PROPS.contains(&prop.as_str()) { eprintln!("unknown property {prop}"); std::process::exit(2); }
            let tier = argv.get(3).cloned().unwrap_or_else(|| "quick".into());
            cmd_check(Args { prop, tier, seed, runs: get("--runs").and_then(|s| s.parse().ok()), threads, out: get("--out"), profile: get("--profile") })
        }
        Some("replay") => cmd_replay(argv.get(2).map(|s| s.as_str()).unwrap_or("")),
        Some("show") => { cmd_show(&get("--profile").unwrap_or("generic".into()), seed, get("--idx").and_then(|s| s.parse().ok()).unwrap_or(0)); 0 }
        Some("hashes") => { cmd_hashes(&get("--profile").unwrap_or("generic".into()), seed, get("--runs").and_then(|s| s.parse().ok()).unwrap_or(1000), threads); 0 }
        Some("run-file") =>
        {
            let txt = std::fs::read_to_string(&argv[2]).expect("read");
            let prog: Program = serde_json::from_str(&txt).expect("parse program");
            let (trace, r) = run_and_check(&Arc::new(prog));
            for (i, e) in trace.iter().enumerate() { println!("{i:4} {e:?}"); }
            println!("verdicts: {:#?}\ninconclusive: {:?}", r.verdicts, r.inconclusive);
            0
        }
        _ => { eprintln!("usage: cobsim check <Cxx> <quick|thorough> [--seed N] [--runs N] [--threads N] | replay <file> | show --profile P --idx I | hashes --profile P --runs N"); 2 }
    };
    std::process::exit(code);
}
