//! Program minimisation: delete steps, ops, triggers and scripts while the same violation persists.
use crate::dsl::*;

fn op_lists(p: &mut Program) -> Vec<&mut Vec<Op>>
{
    let mut v: Vec<&mut Vec<Op>> = Vec::new();
    for s in p.steps.iter_mut() { if let Step::Batch(ops) = s { v.push(ops); } }
    for i in p.insts.iter_mut() { for s in i.scripts.iter_mut() { v.push(s); } }
    for f in p.frame_systems.iter_mut() { for s in f.frames.iter_mut() { v.push(s); } }
    for c in p.callees.iter_mut() { for s in c.iter_mut() { v.push(s); } }
    v
}

fn trig_lists(p: &mut Program) -> Vec<&mut Vec<Trig>>
{
    let mut v: Vec<&mut Vec<Trig>> = Vec::new();
    for l in op_lists(p)
    {
        for op in l.iter_mut()
        {
            match op { Op::Register { trigs, .. } | Op::On { trigs, .. } | Op::Once { trigs, .. } | Op::WrAdd(_, trigs) | Op::WrRemove(_, trigs) => v.push(trigs), _ => {} }
        }
    }
    v
}

pub fn shrink(orig: &Program, mut fails: impl FnMut(&Program) -> bool, budget: usize) -> Program
{
    let mut best = orig.clone();
    let mut tries = 0usize;
    let mut progress = true;
    while progress && tries < budget
    {
        progress = false;
        // 1. drop driver steps (from the end; step 0 holds the initial registrations and is shrunk op-wise)
        let mut i = best.steps.len();
        while i > 1 && tries < budget
        {
            i -= 1;
            let mut c = best.clone();
            c.steps.remove(i);
            tries += 1;
            if fails(&c) { best = c; progress = true; }
        }
        // 2. drop ops
        let nlists = op_lists(&mut best).len();
        for li in 0..nlists
        {
            let mut oi = op_lists(&mut best)[li].len();
            while oi > 0 && tries < budget
            {
                oi -= 1;
                let mut c = best.clone();
                op_lists(&mut c)[li].remove(oi);
                tries += 1;
                if fails(&c) { best = c; progress = true; }
            }
        }
        // 3. drop triggers
        let nt = trig_lists(&mut best).len();
        for ti in 0..nt
        {
            let mut k = trig_lists(&mut best)[ti].len();
            while k > 0 && tries < budget
            {
                k -= 1;
                let mut c = best.clone();
                trig_lists(&mut c)[ti].remove(k);
                tries += 1;
                if fails(&c) { best = c; progress = true; }
            }
        }
        // 4. simplify flavours, drop frame systems
        for ii in 0..best.insts.len()
        {
            if best.insts[ii].flavour != Flavour::Plain && tries < budget
            {
                let mut c = best.clone();
                c.insts[ii].flavour = Flavour::Plain;
                tries += 1;
                if fails(&c) { best = c; progress = true; }
            }
        }
        let mut fi = best.frame_systems.len();
        while fi > 0 && tries < budget
        {
            fi -= 1;
            let mut c = best.clone();
            c.frame_systems.remove(fi);
            tries += 1;
            if fails(&c) { best = c; progress = true; }
        }
    }
    best
}
