//! The program DSL: a simulation run is data (generated, shrunk, serialised, replayed).
use serde::{Deserialize, Serialize};

pub const DRIVER: u8 = 0xFF;

pub type Slot = u8;
pub type Inst = u8;

/// Payload type of an event.
#[derive(Clone, Copy, Debug, PartialEq, Eq, Hash, Serialize, Deserialize, PartialOrd, Ord)]
pub enum P { X, Y }
/// Reactive component type.
#[derive(Clone, Copy, Debug, PartialEq, Eq, Hash, Serialize, Deserialize, PartialOrd, Ord)]
pub enum C { A, B }
/// Reactive resource type.
#[derive(Clone, Copy, Debug, PartialEq, Eq, Hash, Serialize, Deserialize, PartialOrd, Ord)]
pub enum R { R, S,
    /// A resource no system parameter of the harness touches: it can be removed and re-inserted while reactors for it exist.
    T }

impl P { pub fn idx(self) -> usize { self as usize } pub const ALL: [P; 2] = [P::X, P::Y]; }
impl C { pub fn idx(self) -> usize { self as usize } pub const ALL: [C; 2] = [C::A, C::B]; }
impl R { pub fn idx(self) -> usize { self as usize } pub const ALL: [R; 3] = [R::R, R::S, R::T]; }

/// A trigger, naming entities by slot.
#[derive(Clone, Copy, Debug, PartialEq, Eq, Hash, Serialize, Deserialize, PartialOrd, Ord)]
pub enum Trig
{
    Broadcast(P),
    AnyEntityEvent(P),
    EntityEvent(Slot, P),
    Resource(R),
    Insertion(C),
    Mutation(C),
    Removal(C),
    EntityInsertion(Slot, C),
    EntityMutation(Slot, C),
    EntityRemoval(Slot, C),
    Despawn(Slot),
}

impl Trig
{
    pub fn slot(&self) -> Option<Slot>
    {
        match *self
        {
            Trig::EntityEvent(s, _) | Trig::EntityInsertion(s, _) | Trig::EntityMutation(s, _)
            | Trig::EntityRemoval(s, _) | Trig::Despawn(s) => Some(s),
            _ => None,
        }
    }
}

#[derive(Clone, Copy, Debug, PartialEq, Eq, Hash, Serialize, Deserialize)]
pub enum Mode { Persistent, Cleanup, Revokable }

/// How an actor's system is written.
#[derive(Clone, Copy, Debug, PartialEq, Eq, Hash, Serialize, Deserialize)]
pub enum Flavour
{
    /// Non-exclusive system returning `()`.
    Plain,
    /// Non-exclusive system returning `DropErr`.
    FallibleDrop,
    /// Non-exclusive system returning `WarnErr`.
    FallibleWarn,
    /// `&mut World` system (reads events through a `SystemState`).
    Exclusive,
    /// `&mut World` system returning `WarnErr`.
    ExclusiveWarn,
    /// Non-exclusive system all of whose parameters (including `Commands`) sit inside one `ParamSet`.
    InParamSet,
    /// Non-exclusive system whose only way to the world is a `DeferredWorld` (next to its readers, inside one `ParamSet`):
    /// everything it queues lands on the *world's* command queue, not on a buffer of its own, so nothing Bevy does when the
    /// system returns applies it -- only the runner's own flush does.
    DeferredW,
    /// A user-side `CallbackSystem` inside `SystemCommandCallback::with(..)`, spawned with `spawn_system_command_from`; the callback
    /// does "make sure it is initialised, then run" on every run. A user callback cannot invoke the injected cleanup (its `run` is
    /// crate-private), so such a system is only ever run manually or by resource reactions (which carry no cleanup).
    CustomCb,
}

/// How an instance comes into existence.
#[derive(Clone, Copy, Debug, PartialEq, Eq, Hash, Serialize, Deserialize)]
pub enum Origin
{
    /// Spawned by the driver with `spawn_system_command` before the first step.
    Pre,
    /// Created by an `On` op (`on` / `on_persistent` / `on_revokable`).
    On,
    /// Created by a `Once` op.
    Once,
    /// Added at app build with `App::add_reactor(triggers, system)` (persistent; its entity stays unknown to the harness).
    App,
    /// World reactor `W0`/`W1` (index), added at app build.
    World(u8),
    /// Entity world reactor `T0`/`T1` (index), added at app build.
    EntityWorld(u8),
}

#[derive(Clone, Debug, PartialEq, Eq, Serialize, Deserialize)]
pub struct InstDef
{
    pub flavour: Flavour,
    pub origin: Origin,
    /// `scripts[min(run-1, last)]` is executed by run number `run` (1-based).
    pub scripts: Vec<Vec<Op>>,
    /// pre-spawned instances only: spawned with `spawn_rc_system_command(_from)`; the harness keeps the only signal clone
    #[serde(default)]
    pub rc: bool,
}

impl InstDef
{
    pub fn script(&self, run: u32) -> &[Op]
    {
        if self.scripts.is_empty() { return &[]; }
        let i = ((run.max(1) - 1) as usize).min(self.scripts.len() - 1);
        &self.scripts[i]
    }
}

/// Direct world operations (need `&mut World`).
#[derive(Clone, Debug, PartialEq, Eq, Serialize, Deserialize)]
pub enum WOp
{
    /// Re-spawn a slot whose entity is dead (no-op if alive). Optionally with components.
    Spawn(Slot, Option<u8>, Option<u8>),
    Despawn(Slot),
    DespawnRec(Slot),
    Remove(Slot, C),
    /// `React::<C>::trigger_mutation(entity, world)`.
    TriggerMutation(Slot, C),
    /// `world.react(|rc| rc.insert(..))`.
    Insert(Slot, C, u8),
    Gc,
    Poll,
    Flush,
    KillInst(Inst),
    /// Drop the signal of a ref-counted system command (`InstDef::rc`): collected by the next garbage collection.
    DropInstSig(Inst),
    /// Driver level only. Spawn a ref-counted system through one of the four `spawn_rc_*` routes (`variant % 4`), drop the signal at
    /// once (all of it, or keep one clone if `hold`), collect, observe; drop the kept clone, collect, observe.
    RcScratch(u8, bool),
    /// Driver level only. `n` ref-counted reactors on a scratch entity lose their last handle between two collections: the entity
    /// they watch is despawned (`mode` even: `Cleanup` reactors) or all are revoked in one batch (`mode` odd: `Revokable`).
    ReactorBulk(u16, u8),
    /// `world.send_system_event`.
    SysEvent(Inst, P),
    /// `world.broadcast`.
    Broadcast(P),
    /// `world.entity_event`.
    EntityEvent(Slot, P),
    /// `world.trigger_resource_mutation`.
    TriggerRes(R),
    /// Apply a `SystemCommand` directly.
    Run(Inst),
    /// Make `child` a child of `parent` (child index must be greater than parent index).
    Reparent(Slot, Slot),
    /// `AutoDespawner::prepare(slot entity)` into signal slot `k` (replaces nothing: skipped if `k` is in use).
    SigPrepare(u8, Slot),
    SigClone(u8),
    SigDrop(u8),
    /// Same, but the clone is dropped by an unwinding panic (caught right away): a destructor like any other.
    SigDropUnwind(u8),
    /// Move one harness-held clone of signal `k` into a component on the slot's entity: it is dropped when that entity is
    /// despawned (by whatever cause, possibly by a garbage collection).
    SigMoveInto(u8, Slot),
    /// Fault (hook): remove the `SystemCommandStorage` component of a system entity.
    TakeStorage(Inst),
    /// syscall family (C17): `syscall(world, input, callee::<K>)` etc.
    Syscall(SysKind, u8, u32),
    SpawnSys(u8, u8),
    KillSys(u8),
    /// `world.entity_mut(spawned system k).clear()`: the entity stays, the system is gone (skipped for systems inserted on a slot entity)
    ClearSys(u8),
    /// `IdMappedSystems::revoke_sysname` of the named system (name, function key)
    RevokeNamed(u8, u8),
    /// `spawn_rc_system` into spawned-system slot k (the signal is kept by the harness)
    SpawnSysRc(u8, u8),
    /// drop the signal of a ref-counted spawned system
    DropSysRc(u8),
    /// `Commands::insert_system(slot entity, callee)` into spawned-system slot k
    InsertSys(u8, Slot, u8),
    /// Bulk auto-despawn (C10): spawn `n` fresh entities, prepare a signal for each (every `m`-th gets one extra clone that is
    /// kept until the next `Gc` step, when it is dropped *after* that collection), drop the rest at once.
    SigBulk(u16, u8),
    /// Component accessor called from a one-shot system (C14): which accessor, entity slot, component, new value.
    Acc(AccKind, Slot, C, u8),
    /// Resource accessor / world-level resource API (C14).
    ResAcc(ResAccKind, R, u8),
    /// Move a reactive component the documented way: take `React<C>` off `from`, `rc.insert(to, react.take())`.
    Move(Slot, Slot, C),
}

/// Component accessors other than the `ReactiveMut` ones used by `Op::Mutate` & co.
#[derive(Clone, Copy, Debug, PartialEq, Eq, Hash, Serialize, Deserialize)]
pub enum AccKind
{
    /// `Query<&mut React<C>>` + `React::get_mut(&mut commands)`: triggers
    QGetMut,
    /// `React::set_if_neq`: triggers iff different, returns the old value
    QSetIfNeq,
    /// `React::get_noreact`: never triggers
    QNoreact,
    /// `Query<&React<C>>` + `React::get` / deref: never triggers
    QRead,
    /// `Reactive::get`: never triggers
    RoRead,
    /// `ReactiveMut::single_mut` (only called when exactly one entity has the component): triggers
    SingleMut,
    /// `ReactiveMut::single_noreact`
    SingleNoreact,
    /// `ReactiveMut::set_single_if_not_eq`
    SingleSetIfNeq,
    /// `ReactiveMut::single`
    SingleRead,
    /// `Reactive::single`
    RoSingle,
}

#[derive(Clone, Copy, Debug, PartialEq, Eq, Hash, Serialize, Deserialize)]
pub enum ResAccKind
{
    /// `world.react_resource_mut_noreact()`: sets the value, never triggers
    WorldNoreact,
    /// `world.get_react_resource_noreact()`
    WorldGetNoreact,
    /// `world.react_resource()` / `get_react_resource()`
    WorldRead,
    /// `ReactRes<R>` system parameter (read)
    ParamRead,
    /// `world.insert_react_resource(value)`: replaces the value, never triggers
    WorldInsert,
    /// `commands.insert_react_resource(value)`
    CmdInsert,
    /// `world.init_react_resource()` / `commands.init_react_resource()`: nothing happens, the resource exists
    Init,
    /// `world.get_react_resource_or_insert_with(|| value)`: returns the current value, or inserts and returns `value`
    GetOrInsertWith,
    /// `world.remove_react_resource()` (resource `T` only)
    WorldRemove,
    /// `commands.remove_react_resource()` (resource `T` only)
    CmdRemove,
}

/// Entry points of the syscall family.
#[derive(Clone, Copy, Debug, PartialEq, Eq, Hash, Serialize, Deserialize)]
pub enum SysKind
{
    /// `world.syscall(input, callee::<K>)`
    Plain,
    /// `world.syscall_with_validation`
    Validated,
    /// `world.syscall_once`
    Once,
    /// `world.syscall_once_with_validation`
    OnceValidated,
    /// `named_syscall(world, name, input, callee::<K>)`, name in the second field's high nibble
    Named(u8),
    /// `named_syscall_direct` (errors if not registered)
    NamedDirect(u8),
    /// `register_named_system`
    RegisterNamed(u8),
    /// `spawned_syscall(world, sys[k], input)`; the `u8` of `WOp::Syscall` is the spawned-system slot
    Spawned,
}

/// Operations a system body (or a driver batch) performs.
#[derive(Clone, Debug, PartialEq, Eq, Serialize, Deserialize)]
pub enum Op
{
    // messaging
    Run(Inst),
    SysEvent(Inst, P),
    Broadcast(P),
    EntityEvent(Slot, P),
    TriggerRes(R),
    /// Same as `Broadcast` / `EntityEvent` / `SysEvent`, but the payload owns one of the harness's clones of signal `k`.
    BroadcastSig(P, u8),
    EntityEventSig(Slot, P, u8),
    SysEventSig(Inst, P, u8),
    // reactive ECS through commands
    Insert(Slot, C, u8),
    Remove(Slot, C),
    Despawn(Slot),
    DespawnRec(Slot),
    // reactive accessors (need system params; skipped in exclusive bodies)
    Mutate(Slot, C, u8),
    SetIfNeq(Slot, C, u8),
    Noreact(Slot, C, u8),
    Read(Slot, C),
    ResMut(R, u8),
    ResSetIfNeq(R, u8),
    ResNoreact(R, u8),
    // registration
    Register { inst: Inst, mode: Mode, trigs: Vec<Trig> },
    On { inst: Inst, mode: Mode, trigs: Vec<Trig> },
    Once { inst: Inst, trigs: Vec<Trig> },
    Revoke(Inst),
    // world reactors (applied through a wrapper command)
    WrAdd(u8, Vec<Trig>),
    WrRemove(u8, Vec<Trig>),
    WrRun(u8),
    EwrAdd(u8, Slot, u32),
    /// Same through `EntityCommands::add_world_reactor::<T>(data)`.
    EwrAddEc(u8, Slot, u32),
    /// Remove the triggers selected by the bit mask (bit i = i-th trigger of the reactor's bundle) for a slot.
    EwrRemove(u8, Slot, u8),
    /// One `remove` call whose bundle names several entities: (slot, trigger mask) each.
    EwrRemoveMany(u8, Vec<(Slot, u8)>),
    // faults / probes
    KillInst(Inst),
    Probe,
    /// Stop the body here and return an error (fallible flavours only; ignored otherwise).
    ReturnErr,
    /// A plain Bevy command performing a direct world operation when applied.
    Direct(WOp),
    /// Exclusive bodies only: perform the world operation immediately, inside the body.
    Now(WOp),
    /// `Commands::syscall` / `Commands::spawned_syscall` (C17).
    CmdSyscall(SysKind, u8, u32),
}

/// One driver step.
#[derive(Clone, Debug, PartialEq, Eq, Serialize, Deserialize)]
pub enum Step
{
    /// Run the ops in a one-shot system (`world.syscall`), i.e. queue commands and flush.
    Batch(Vec<Op>),
    /// Perform a world operation directly.
    Direct(WOp),
    /// One `App::update()`.
    Update,
    /// `app.setup_auto_despawn()` called again ("can be added to multiple plugins without conflict"): must change nothing.
    AppSetup,
}

/// A frame system (C08c): an exclusive system in an `App` schedule that runs a batch per frame.
#[derive(Clone, Debug, PartialEq, Eq, Serialize, Deserialize)]
pub struct FrameSys
{
    /// 0 = Update, 1 = PostUpdate, 2 = Last before the plugin's GC+poll, 3 = Last after the poll.
    pub place: u8,
    /// `frames[min(frame, last)]` is run in frame `frame` (0-based).
    pub frames: Vec<Vec<Op>>,
}

#[derive(Clone, Debug, PartialEq, Eq, Serialize, Deserialize, Default)]
pub struct Program
{
    /// Initial component values of the slots: (A, B).
    pub slots: Vec<(Option<u8>, Option<u8>)>,
    pub insts: Vec<InstDef>,
    /// Frame systems in their total order (the order is part of the program = the schedule).
    pub frame_systems: Vec<FrameSys>,
    /// Scripts of the syscall-family callees: `callees[key][min(call, last)]`.
    pub callees: Vec<Vec<Vec<Op>>>,
    pub steps: Vec<Step>,
    /// Starting triggers of world reactor `W1` (`add_world_reactor_with`).
    #[serde(default)]
    pub wr_starting: Vec<Trig>,
    /// Triggers of the `Origin::App` instances: (instance, triggers).
    #[serde(default)]
    pub app_reactors: Vec<(Inst, Vec<Trig>)>,
    /// Add `ReactPlugin` after the app-level reactors (`add_reactor`, `add_world_reactor*`, `add_entity_reactor`) instead of before.
    #[serde(default)]
    pub plugin_last: bool,
    /// A second, independent `App` with its own reactors and auto-despawn signals lives next to the one under test and is
    /// exercised between the driver steps: neither world may affect the other.
    #[serde(default)]
    pub bystander: bool,
    /// Per callee function key of the syscall family: the callee is written with a `DeferredWorld` as its only way to the world,
    /// so what it queues lands on the world's own command queue.
    #[serde(default)]
    pub callee_dw: [bool; 3],
    /// Exclusive bodies do not flush the world's command queue themselves before they trigger something directly
    /// (`world.broadcast`, `world.entity_event`, `trigger_mutation`, ...): what they queued earlier is still pending while the
    /// framework works out who reacts, and is applied somewhere inside the call.
    #[serde(default)]
    pub excl_noflush: bool,
}

impl Program
{
    pub fn callee_script(&self, key: u8, call: u32) -> &[Op]
    {
        let Some(c) = self.callees.get(key as usize) else { return &[] };
        if c.is_empty() { return &[]; }
        let i = ((call.max(1) - 1) as usize).min(c.len() - 1);
        &c[i]
    }

    /// Number of ops in the program (size measure for shrinking).
    pub fn size(&self) -> usize
    {
        fn ops(v: &[Op]) -> usize { v.iter().map(|o| 1 + match o { Op::Register{trigs,..} | Op::On{trigs,..} | Op::Once{trigs,..} | Op::WrAdd(_, trigs) | Op::WrRemove(_, trigs) => trigs.len(), _ => 0 }).sum() }
        let mut n = 0;
        for i in &self.insts { for s in &i.scripts { n += ops(s); } n += 1; }
        for f in &self.frame_systems { for s in &f.frames { n += ops(s); } n += 1; }
        for c in &self.callees { for s in c { n += ops(s); } }
        for s in &self.steps { n += 1 + match s { Step::Batch(v) => ops(v), _ => 0 }; }
        n
    }
}

/// Unique id of an op execution: issuer (instance, or `DRIVER`, or `CALLEE_BASE + key`), run number, op index.
pub const CALLEE_BASE: u8 = 0xE0;
pub const FRAME_BASE: u8 = 0xD0;
pub fn uid(issuer: u8, run: u32, idx: usize) -> u32
{
    ((issuer as u32) << 16) | ((run & 0xFF) << 8) | (idx as u32 & 0xFF)
}
