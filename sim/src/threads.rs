//! C10 thread scenario under shuttle — filled in later.
use crate::dsl::Program;
pub fn explore(_seed: u64, _iters: usize, _dir: &std::path::Path) -> (serde_json::Value, Vec<(String, String)>) { (serde_json::Value::Null, Vec::new()) }
pub fn replay(_p: &Program, _schedule: &str, _path: &str) -> i32 { 2 }
