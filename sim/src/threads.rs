//! C10 thread scenario: clones of auto-despawn signals are moved to worker threads and dropped there while the main
//! thread collects garbage. shuttle's seeded random scheduler decides every thread switch; yield points come from the
//! harness and from the cfg-gated hooks inside `auto_despawn.rs` (Arc shim, before `send`, inside the collection loop).
use crate::dsl::Program;
use crate::gen::Rng;
use bevy::prelude::*;
use bevy_cobweb::prelude::*;
use serde::{Deserialize, Serialize};
use serde_json::json;
use std::sync::atomic::{AtomicU64, AtomicUsize, Ordering};
use std::sync::{Arc, Mutex};

#[derive(Clone, Debug, Serialize, Deserialize, PartialEq, Eq)]
pub enum TOp
{
    /// clone the worker's newest clone of signal `s` (no-op if it holds none)
    Clone(u8),
    /// drop the worker's newest clone of signal `s`
    Drop(u8),
    /// same, but the clone is dropped while a (caught) panic unwinds the worker's stack
    DropUnwind(u8),
    Yield,
}

#[derive(Clone, Debug, Serialize, Deserialize, PartialEq, Eq)]
pub enum MOp
{
    Gc,
    /// clone / drop on the main thread (the main thread may hold clones too)
    Clone(u8),
    Drop(u8),
    /// manual despawn of entity `e`
    Despawn(u8),
    Yield,
    /// `app.setup_auto_despawn()` again: must change nothing
    Setup,
}

#[derive(Clone, Debug, Serialize, Deserialize, PartialEq, Eq, Default)]
pub struct TProg
{
    /// parent of entity i (must be < i)
    pub parents: Vec<Option<u8>>,
    /// signal s guards entity `sig_ent[s]`
    pub sig_ent: Vec<u8>,
    /// initial clones: (signal, holder) where holder 0 = main, k = worker k-1
    pub initial: Vec<(u8, u8)>,
    pub workers: Vec<Vec<TOp>>,
    pub main: Vec<MOp>,
}

pub fn gen_tprog(seed: u64) -> TProg
{
    let mut r = Rng::new(seed);
    let nent = r.range(1, 4) as usize;
    let mut p = TProg::default();
    for i in 0..nent { p.parents.push(if i > 0 && r.chance(60) { Some(r.below(i as u64) as u8) } else { None }); }
    let nsig = r.range(1, 2) as usize;
    for _ in 0..nsig { p.sig_ent.push(r.below(nent as u64) as u8); }
    let nworkers = r.range(1, 3) as usize;
    p.workers = vec![Vec::new(); nworkers];
    let style = r.below(3);
    for s in 0..nsig as u8
    {
        if style == 0 && nworkers >= 2
        {
            // the shape that exposes racy "last one out" logic: exactly two clones, dropped on different threads
            p.initial.push((s, 1));
            p.initial.push((s, 2));
            p.workers[0].push(TOp::Drop(s));
            p.workers[1].push(TOp::Drop(s));
        }
        else
        {
            let n = r.range(1, 3);
            for _ in 0..n { p.initial.push((s, r.below(nworkers as u64 + 1) as u8)); }
        }
    }
    for w in 0..nworkers
    {
        let n = r.range(0, 4);
        for _ in 0..n
        {
            let s = r.below(nsig as u64) as u8;
            // (`DropUnwind` is not generated here: shuttle's own panic hook reports every panic, caught or not, on stderr; the op is
            // exercised by the single-threaded simulator instead and stays available for hand-written scenarios)
            let op = match r.below(6) { 0 | 1 => TOp::Clone(s), 2 | 3 | 4 => TOp::Drop(s), _ => TOp::Yield };
            let at = r.below(p.workers[w].len() as u64 + 1) as usize;
            p.workers[w].insert(at, op);
        }
        // a worker drops everything it still holds when it ends (closure state), so every history terminates
    }
    let n = r.range(1, 5);
    for _ in 0..n
    {
        let s = r.below(nsig as u64) as u8;
        p.main.push(match r.below(10) { 0..=4 => MOp::Gc, 5 => MOp::Clone(s), 6 | 7 => MOp::Drop(s), 8 => MOp::Despawn(r.below(nent as u64) as u8), _ => if r.chance(50) { MOp::Yield } else { MOp::Setup } });
    }
    p
}

#[derive(Default)]
struct Hist
{
    /// per clone object: (signal, created seq, drop invoke seq, drop return seq)
    clones: Vec<(u8, u64, Option<u64>, Option<u64>)>,
}

struct Shared
{
    seq: AtomicU64,
    hist: Mutex<Hist>,
}

impl Shared
{
    fn tick(&self) -> u64 { self.seq.fetch_add(1, Ordering::SeqCst) + 1 }
    fn created(&self, s: u8) -> usize { let t = self.tick(); let mut h = self.hist.lock().unwrap_or_else(|e| e.into_inner()); h.clones.push((s, t, None, None)); h.clones.len() - 1 }
    fn drop_invoke(&self, id: usize) { let t = self.tick(); self.hist.lock().unwrap_or_else(|e| e.into_inner()).clones[id].2 = Some(t); }
    fn drop_return(&self, id: usize) { let t = self.tick(); self.hist.lock().unwrap_or_else(|e| e.into_inner()).clones[id].3 = Some(t); }
}

fn yield_hook() { shuttle::thread::yield_now(); }

struct Held { sig: AutoDespawnSignal, id: usize }

fn drop_held(sh: &Shared, h: Held)
{
    sh.drop_invoke(h.id);
    drop(h.sig);
    sh.drop_return(h.id);
}

#[derive(Default)]
pub struct TStats
{
    pub executions: AtomicUsize,
    pub gc_with_drop_in_flight: AtomicUsize,
    pub two_final_drops_concurrent: AtomicUsize,
    pub collected_by_gc: AtomicUsize,
    pub outcomes: Mutex<std::collections::HashSet<u64>>,
}

/// One execution of the scenario under the current shuttle schedule. Panics on a violation.
fn scenario(p: &TProg, stats: &TStats)
{
    bevy_cobweb::verif::set_yield_hook(Some(yield_hook));
    let mut app = App::new();
    app.add_plugins(ReactPlugin);
    let world = app.world_mut();
    let nent = p.parents.len();
    let ents: Vec<Entity> = (0..nent).map(|_| world.spawn_empty().id()).collect();
    for (i, par) in p.parents.iter().enumerate() { if let Some(par) = par { world.entity_mut(ents[*par as usize]).add_child(ents[i]); } }
    let sh = Arc::new(Shared { seq: AtomicU64::new(0), hist: Mutex::new(Hist::default()) });
    let nsig = p.sig_ent.len();
    // initial clones: first holder gets the prepared signal, others get clones
    let mut main_held: Vec<Vec<Held>> = (0..nsig).map(|_| Vec::new()).collect();
    let mut worker_held: Vec<Vec<Vec<Held>>> = p.workers.iter().map(|_| (0..nsig).map(|_| Vec::new()).collect()).collect();
    let mut roots: Vec<Option<AutoDespawnSignal>> = (0..nsig).map(|_| None).collect();
    for (s, holder) in &p.initial
    {
        let si = *s as usize;
        let sig = match &roots[si]
        {
            None => { let g = world.resource::<AutoDespawner>().prepare(ents[p.sig_ent[si] as usize]); roots[si] = Some(g.clone()); g }
            Some(g) => g.clone(),
        };
        let id = sh.created(*s);
        let held = Held { sig, id };
        if *holder == 0 { main_held[si].push(held); } else { worker_held[(*holder as usize - 1).min(p.workers.len() - 1)][si].push(held); }
    }
    // the template clones used for setup are dropped before anything runs, on the main thread
    for (si, r) in roots.into_iter().enumerate() { if let Some(g) = r { let id = sh.created(si as u8); drop_held(&sh, Held { sig: g, id }); } }

    let mut handles = Vec::new();
    for (w, ops) in p.workers.iter().enumerate()
    {
        let ops = ops.clone();
        let sh = sh.clone();
        let mut held = std::mem::take(&mut worker_held[w]);
        handles.push(shuttle::thread::spawn(move ||
        {
            for op in ops
            {
                match op
                {
                    TOp::Clone(s) => { if let Some(h) = held[s as usize].last() { let c = h.sig.clone(); let id = sh.created(s); held[s as usize].push(Held { sig: c, id }); } }
                    TOp::Drop(s) => { if let Some(h) = held[s as usize].pop() { drop_held(&sh, h); } }
                    TOp::DropUnwind(s) =>
                    {
                        if let Some(h) = held[s as usize].pop()
                        {
                            sh.drop_invoke(h.id);
                            let id = h.id;
                            let sig = h.sig;
                            let _ = std::panic::catch_unwind(std::panic::AssertUnwindSafe(move || { let _guard = sig; panic!("unwinding with a signal clone on the stack"); }));
                            sh.drop_return(id);
                        }
                    }
                    TOp::Yield => shuttle::thread::yield_now(),
                }
            }
            for v in held.into_iter() { for h in v.into_iter().rev() { drop_held(&sh, h); } }
        }));
    }

    let mut manual: Vec<bool> = vec![false; nent];
    let alive_now = |world: &World| -> Vec<bool> { ents.iter().map(|e| world.get_entity(*e).is_ok()).collect() };
    let ancestors = |i: usize| -> Vec<usize> { let mut v = Vec::new(); let mut c = p.parents[i]; while let Some(x) = c { v.push(x as usize); c = p.parents[x as usize]; } v };
    let check_gc = |world: &World, gi: u64, gr: u64, manual: &Vec<bool>, last: bool|
    {
        let alive = alive_now(world);
        let h = sh.hist.lock().unwrap_or_else(|e| e.into_inner());
        // per entity: is it guarded, and what do the histories of its signals say
        let mut must_dead = vec![false; nent];
        let mut may_dead = vec![false; nent];
        for s in 0..nsig
        {
            let e = p.sig_ent[s] as usize;
            let clones: Vec<_> = h.clones.iter().filter(|c| c.0 as usize == s).collect();
            if clones.is_empty() { continue; }
            let all_returned_before = clones.iter().all(|c| matches!(c.3, Some(t) if t < gi));
            let some_drop_started_before_return = clones.iter().all(|c| matches!(c.2, Some(t) if t < gr));
            if all_returned_before { must_dead[e] = true; }
            if some_drop_started_before_return { may_dead[e] = true; }
            if !all_returned_before && some_drop_started_before_return { stats.gc_with_drop_in_flight.fetch_add(1, Ordering::Relaxed); }
        }
        for i in 0..nent
        {
            let anc = ancestors(i);
            let gone_by_design = manual[i] || anc.iter().any(|a| manual[*a]);
            // a collected ancestor takes its descendants with it, unless a manual (non-recursive) despawn cut the chain
            let mut must = must_dead[i] && !manual[i];
            let mut cut = manual[i];
            for a in &anc { if manual[*a] { cut = true; } if !cut && must_dead[*a] { must = true; } }
            let may = may_dead[i] || anc.iter().any(|a| may_dead[*a]);
            if must && alive[i]
            {
                panic!("autodespawn-leak: entity {i} survived a garbage collection although every clone of its signal (or an ancestor's) had been dropped before the collection started{}", if last { " (final collection)" } else { "" });
            }
            if !alive[i] && !gone_by_design && !may
            {
                panic!("premature-autodespawn: entity {i} was despawned by a garbage collection while a clone of its signal (and of every ancestor's) still exists");
            }
            if !alive[i] && must { stats.collected_by_gc.fetch_add(1, Ordering::Relaxed); }
        }
    };

    for op in &p.main
    {
        match op
        {
            MOp::Gc =>
            {
                let gi = sh.tick();
                garbage_collect_entities(app.world_mut());
                let gr = sh.tick();
                check_gc(app.world(), gi, gr, &manual, false);
                // idempotence: a second collection right away changes nothing unless more drops landed
            }
            MOp::Clone(s) => { if let Some(h) = main_held[*s as usize].last() { let c = h.sig.clone(); let id = sh.created(*s); main_held[*s as usize].push(Held { sig: c, id }); } }
            MOp::Drop(s) => { if let Some(h) = main_held[*s as usize].pop() { drop_held(&sh, h); } }
            MOp::Despawn(e) =>
            {
                let i = *e as usize;
                if app.world().get_entity(ents[i]).is_ok() { app.world_mut().despawn(ents[i]); }
                manual[i] = true;
            }
            MOp::Yield => shuttle::thread::yield_now(),
            MOp::Setup => { app.setup_auto_despawn(); }
        }
    }
    for h in handles { h.join().unwrap(); }
    for v in main_held.into_iter() { for h in v.into_iter().rev() { drop_held(&sh, h); } }
    // everything is dropped now: one collection must remove every guarded entity with its descendants; a second one is a no-op
    let gi = sh.tick();
    garbage_collect_entities(app.world_mut());
    let gr = sh.tick();
    check_gc(app.world(), gi, gr, &manual, true);
    let before = alive_now(app.world());
    garbage_collect_entities(app.world_mut());
    if alive_now(app.world()) != before { panic!("gc-not-idempotent: a second garbage collection changed the world"); }
    // probes
    {
        let h = sh.hist.lock().unwrap_or_else(|e| e.into_inner());
        for s in 0..nsig
        {
            let mut last: Vec<_> = h.clones.iter().filter(|c| c.0 as usize == s).collect();
            last.sort_by_key(|c| c.3);
            if last.len() >= 2
            {
                let (a, b) = (last[last.len() - 2], last[last.len() - 1]);
                if let (Some(bi), Some(ar)) = (b.2, a.3) { if bi < ar { stats.two_final_drops_concurrent.fetch_add(1, Ordering::Relaxed); } }
            }
        }
        let mut hh = std::collections::hash_map::DefaultHasher::new();
        use std::hash::{Hash, Hasher};
        for c in &h.clones { c.hash(&mut hh); }
        before.hash(&mut hh);
        stats.outcomes.lock().unwrap_or_else(|e| e.into_inner()).insert(hh.finish());
    }
    stats.executions.fetch_add(1, Ordering::Relaxed);
    bevy_cobweb::verif::set_yield_hook(None);
}

#[derive(Serialize, Deserialize)]
struct TReplay
{
    version: u32, property: String, rule: String, message: String, verif_seed: u64, program_seed: u64, tprog: TProg,
    /// the schedules are a pure function of (scheduler seed, number of schedules): replay re-runs the same seeded scheduler
    scheduler: String, scheduler_seed: u64, schedules: usize, failed_at_schedule: usize,
}

fn run_shuttle(p: &TProg, seed: u64, iterations: usize, stats: Arc<TStats>) -> Result<(), (String, usize)>
{
    let mut cfg = shuttle::Config::new();
    cfg.stack_size = 1 << 20;
    cfg.failure_persistence = shuttle::FailurePersistence::None;
    let before = stats.executions.load(Ordering::Relaxed);
    let sched = shuttle::scheduler::RandomScheduler::new_from_seed(seed, iterations);
    let p2 = p.clone();
    let st = stats.clone();
    crate::obs::set_quiet(true);
    let r = std::panic::catch_unwind(std::panic::AssertUnwindSafe(move || { shuttle::Runner::new(sched, cfg).run(move || scenario(&p2, &st)); }));
    crate::obs::set_quiet(false);
    bevy_cobweb::verif::set_yield_hook(None);
    match r
    {
        Ok(()) => Ok(()),
        Err(e) =>
        {
            let msg = e.downcast_ref::<String>().cloned().or_else(|| e.downcast_ref::<&str>().map(|s| s.to_string())).unwrap_or_else(|| "panic".into());
            let sched = stats.executions.load(Ordering::Relaxed) - before;
            Err((msg, sched))
        }
    }
}

pub fn explore(vseed: u64, executions: usize, dir: &std::path::Path) -> (serde_json::Value, Vec<(String, String)>)
{
    let t0 = std::time::Instant::now();
    let per_prog = 60usize;
    let nprogs = (executions / per_prog).max(1);
    let threads = std::thread::available_parallelism().map(|n| n.get()).unwrap_or(8).min(16);
    let stats = Arc::new(TStats::default());
    let found: Arc<Mutex<Vec<(u64, u64, TProg, String, usize)>>> = Arc::new(Mutex::new(Vec::new()));
    let mut hs = Vec::new();
    for t in 0..threads
    {
        let stats = stats.clone();
        let found = found.clone();
        hs.push(std::thread::Builder::new().stack_size(64 << 20).spawn(move ||
        {
            let mut i = t;
            while i < nprogs
            {
                let pseed = crate::gen::mix(crate::gen::mix(vseed, 0xC10), i as u64);
                let p = gen_tprog(pseed);
                // every program gets its own statistics object so that "failed at schedule" is exact
                let local = Arc::new(TStats::default());
                let res = run_shuttle(&p, pseed, per_prog, local.clone());
                stats.executions.fetch_add(local.executions.load(Ordering::Relaxed), Ordering::Relaxed);
                stats.gc_with_drop_in_flight.fetch_add(local.gc_with_drop_in_flight.load(Ordering::Relaxed), Ordering::Relaxed);
                stats.two_final_drops_concurrent.fetch_add(local.two_final_drops_concurrent.load(Ordering::Relaxed), Ordering::Relaxed);
                stats.collected_by_gc.fetch_add(local.collected_by_gc.load(Ordering::Relaxed), Ordering::Relaxed);
                stats.outcomes.lock().unwrap_or_else(|e| e.into_inner()).extend(local.outcomes.lock().unwrap_or_else(|e| e.into_inner()).iter().copied());
                if let Err((msg, sched)) = res
                {
                    let mut f = found.lock().unwrap_or_else(|e| e.into_inner());
                    if f.len() < 8 { f.push((i as u64, pseed, p, msg, sched)); }
                }
                i += threads;
            }
        }).unwrap());
    }
    for h in hs { let _ = h.join(); }
    let mut found = std::mem::take(&mut *found.lock().unwrap_or_else(|e| e.into_inner()));
    found.sort_by_key(|f| f.0);
    let mut out = Vec::new();
    if let Some((idx, pseed, p, msg, sched)) = found.first()
    {
        let rule = msg.split(':').next().unwrap_or("thread-scenario").to_string();
        // minimise the scenario program: drop ops / initial clones / workers / entities while the same rule still fails
        // under the same seeded scheduler (the schedule index may change; it is recomputed)
        let (p, msg, sched) = &minimise(p, *pseed, per_prog, &rule, msg.clone(), *sched);
        let rdir = dir.join("replays");
        let _ = std::fs::create_dir_all(&rdir);
        let path = rdir.join(format!("C10-threads-{vseed}-{idx}.json"));
        let rf = TReplay { version: 1, property: "C10".into(), rule, message: msg.clone(), verif_seed: vseed, program_seed: *pseed, tprog: p.clone(),
            scheduler: "shuttle::scheduler::RandomScheduler::new_from_seed".into(), scheduler_seed: *pseed, schedules: per_prog, failed_at_schedule: *sched };
        let _ = idx;
        let _ = std::fs::write(&path, serde_json::to_string_pretty(&rf).unwrap());
        out.push((msg.clone(), path.display().to_string()));
    }
    let wall = t0.elapsed().as_secs_f64();
    let execs = stats.executions.load(Ordering::Relaxed);
    let cov = json!({
        "scheduler": "shuttle RandomScheduler (seeded); yield points: harness ops + cfg-gated hooks in auto_despawn.rs (Arc clone/drop/strong_count, before send, inside the collection loop)",
        "programs": nprogs, "schedules_per_program": per_prog, "executions_completed": execs,
        "executions_per_hour": (execs as f64 / wall.max(0.001) * 3600.0) as u64,
        "distinct_histories": stats.outcomes.lock().unwrap_or_else(|e| e.into_inner()).len(),
        "probe_gc_while_a_drop_is_in_flight": stats.gc_with_drop_in_flight.load(Ordering::Relaxed),
        "probe_two_final_drops_concurrent": stats.two_final_drops_concurrent.load(Ordering::Relaxed),
        "entities_collected_by_gc": stats.collected_by_gc.load(Ordering::Relaxed),
        "violations": found.len(),
        "sample_program": serde_json::to_value(gen_tprog(crate::gen::mix(crate::gen::mix(vseed, 0xC10), 0))).unwrap(),
    });
    (cov, out)
}

/// Greedy delta-debugging over the thread scenario program.
fn minimise(p: &TProg, seed: u64, schedules: usize, rule: &str, msg: String, sched: usize) -> (TProg, String, usize)
{
    let fails = |q: &TProg| -> Option<(String, usize)>
    {
        match run_shuttle(q, seed, schedules, Arc::new(TStats::default())) { Err((m, at)) if m.starts_with(rule) => Some((m, at)), _ => None }
    };
    let mut best = (p.clone(), msg, sched);
    let mut budget = 300usize;
    loop
    {
        let mut improved = false;
        let cur = best.0.clone();
        let mut cands: Vec<TProg> = Vec::new();
        for i in 0..cur.main.len() { let mut q = cur.clone(); q.main.remove(i); cands.push(q); }
        for w in 0..cur.workers.len() { for i in 0..cur.workers[w].len() { let mut q = cur.clone(); q.workers[w].remove(i); cands.push(q); } }
        for i in 0..cur.initial.len() { let mut q = cur.clone(); q.initial.remove(i); cands.push(q); }
        // drop the last worker if it holds nothing and does nothing
        if cur.workers.len() > 1 && cur.workers.last().map(|w| w.is_empty()).unwrap_or(false) && !cur.initial.iter().any(|(_, h)| *h as usize == cur.workers.len()) { let mut q = cur.clone(); q.workers.pop(); cands.push(q); }
        // detach children
        for i in 0..cur.parents.len() { if cur.parents[i].is_some() { let mut q = cur.clone(); q.parents[i] = None; cands.push(q); } }
        // drop the last entity if nothing refers to it
        if cur.parents.len() > 1
        {
            let last = (cur.parents.len() - 1) as u8;
            if !cur.sig_ent.contains(&last) && !cur.parents.iter().any(|x| *x == Some(last)) && !cur.main.iter().any(|m| matches!(m, MOp::Despawn(e) if *e == last)) { let mut q = cur.clone(); q.parents.pop(); cands.push(q); }
        }
        for q in cands
        {
            if budget == 0 { return best; }
            budget -= 1;
            if let Some((m, at)) = fails(&q) { best = (q, m, at); improved = true; break; }
        }
        if !improved { return best; }
    }
}

pub fn replay(_p: &Program, _schedule: &str, path: &str) -> i32
{
    let txt = match std::fs::read_to_string(path) { Ok(t) => t, Err(e) => { eprintln!("cannot read {path}: {e}"); return 2; } };
    let rf: TReplay = match serde_json::from_str(&txt) { Ok(r) => r, Err(e) => { eprintln!("bad thread replay file: {e}"); return 2; } };
    let stats = Arc::new(TStats::default());
    match run_shuttle(&rf.tprog, rf.scheduler_seed, rf.schedules, stats)
    {
        Err((msg, at)) if msg.starts_with(&rf.rule) =>
        {
            println!("reproduced at schedule {at} (recorded: {}): {msg}", rf.failed_at_schedule);
            println!("VIOLATION property=C10 replay={path}");
            1
        }
        Err((msg, _)) => { println!("replay failed differently: {msg}"); println!("VIOLATION property=C10 replay={path}"); 1 }
        Ok(()) => { println!("replay did not reproduce the thread-scenario violation ({} schedules clean)", rf.schedules); 0 }
    }
}
